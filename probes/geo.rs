use vstd::prelude::*;
verus! {
pub open spec fn rk(s: int) -> int { s / 8 }
pub open spec fn fl(s: int) -> int { s % 8 }
pub open spec fn onb(s: int) -> bool { 0 <= s < 64 }
pub open spec fn sgn(x: int) -> int { if x > 0 { 1 } else if x < 0 { -1 } else { 0 } }
// direction from a to b if aligned (queen line), else (0,0)
pub open spec fn aligned(a: int, b: int) -> bool {
    a != b && (rk(a) == rk(b) || fl(a) == fl(b) || rk(a) - rk(b) == fl(a) - fl(b) || rk(a) - rk(b) == fl(b) - fl(a))
}
pub open spec fn dir(a: int, b: int) -> (int, int) { (sgn(rk(b) - rk(a)), sgn(fl(b) - fl(a))) }
pub open spec fn cheb(a: int, b: int) -> int {
    let dr = if rk(a) > rk(b) { rk(a) - rk(b) } else { rk(b) - rk(a) };
    let df = if fl(a) > fl(b) { fl(a) - fl(b) } else { fl(b) - fl(a) };
    if dr > df { dr } else { df }
}
// t strictly between a and b on a common line
pub open spec fn sbetween(a: int, b: int, t: int) -> bool {
    aligned(a, b) && aligned(a, t) && dir(a, t) == dir(a, b) && cheb(a, t) < cheb(a, b)
}
// two different rays from k share no square
proof fn rays_disjoint(k: int, a: int, b: int, t: int)
    requires onb(k), onb(a), onb(b), onb(t), aligned(k, a), aligned(k, b), dir(k, a) != dir(k, b),
        aligned(k, t), dir(k, t) == dir(k, a)
    ensures !(dir(k, t) == dir(k, b))
{}
// if t is strictly between k and a, then a is not strictly between k and t, and same ray
proof fn between_same_ray(k: int, a: int, t: int)
    requires onb(k), onb(a), onb(t), sbetween(k, a, t)
    ensures aligned(k, t), dir(k, t) == dir(k, a), !sbetween(k, t, a), aligned(t, a), dir(t, a) == dir(k, a)
{}
// transitivity: u between k and t, t between k and a ==> u between k and a
proof fn between_trans(k: int, a: int, t: int, u: int)
    requires onb(k), onb(a), onb(t), onb(u), sbetween(k, a, t), sbetween(k, t, u)
    ensures sbetween(k, a, u)
{}
// a knight move is never aligned
proof fn knight_not_aligned(a: int, b: int)
    requires onb(a), onb(b),
        (rk(a) - rk(b) == 2 || rk(b) - rk(a) == 2) && (fl(a) - fl(b) == 1 || fl(b) - fl(a) == 1)
        || (rk(a) - rk(b) == 1 || rk(b) - rk(a) == 1) && (fl(a) - fl(b) == 2 || fl(b) - fl(a) == 2)
    ensures !aligned(a, b)
{}
}
fn main(){}
