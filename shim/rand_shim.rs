pub trait RngCore { fn next_u64(&mut self) -> u64; }
pub trait Rng: RngCore { fn gen<T>(&mut self) -> T { unimplemented!() } }
pub mod rngs { #[derive(Default)] pub struct ThreadRng; }
pub mod prelude { pub use super::rngs::ThreadRng; pub use super::{Rng, RngCore}; }
impl RngCore for rngs::ThreadRng { fn next_u64(&mut self) -> u64 { unimplemented!() } }
impl Rng for rngs::ThreadRng {}
pub fn thread_rng() -> rngs::ThreadRng { rngs::ThreadRng }
