use vstd::prelude::*;
verus! {
fn g(x: i32) -> (r: i32)
    requires x == -1
    ensures r == 0
{
    x / 24
}
fn h(x: i32) -> (r: i32)
    requires x == -1
    ensures r == -1
{
    x / 24
}
}
fn main(){}
