#![allow(dead_code, unused_imports)]
#[path = "/repo/src/bitboard.rs"] mod bitboard;
#[path = "/repo/src/board.rs"] mod board;
#[path = "/repo/src/eval.rs"] mod eval;
#[path = "/repo/src/fen.rs"] mod fen;
#[path = "/repo/src/history.rs"] mod history;
#[path = "/repo/src/killer_moves.rs"] mod killer_moves;
#[path = "/repo/src/lookup.rs"] mod lookup;
#[path = "/repo/src/magic.rs"] mod magic;
#[path = "move_gen_pub.rs"] mod move_gen;
#[path = "/repo/src/moves.rs"] mod moves;
#[path = "/repo/src/pieces.rs"] mod pieces;
#[path = "/repo/src/repetition.rs"] mod repetition;
#[path = "/repo/src/search.rs"] mod search;
#[path = "/repo/src/square.rs"] mod square;
#[path = "/repo/src/timer.rs"] mod timer;
#[path = "/repo/src/transposition.rs"] mod transposition;
#[path = "/repo/src/uci.rs"] mod uci;
#[path = "/repo/src/util.rs"] mod util;
#[path = "/repo/src/zobrist.rs"] mod zobrist;

fn main() {}
#[cfg(kani)] mod h2;

#[cfg(kani)]
mod harness {
    use crate::bitboard::*;
    use crate::moves::*;

    fn spec_shift(bb: u64, dir: i8) -> u64 {
        // geometric spec: move every set bit by (dr, df) dropping those that leave the board
        let mut out = 0u64;
        let mut s = 0u8;
        while s < 64 {
            if bb & (1u64 << s) != 0 {
                let r = (s / 8) as i8; let f = (s % 8) as i8;
                let (dr, df) = match dir { 8 => (1,0), -8 => (-1,0), 1 => (0,1), -1 => (0,-1), 9 => (1,1), 7 => (1,-1), -7 => (-1,1), -9 => (-1,-1),
                   17 => (2,1), 15 => (2,-1), -15 => (-2,1), -17 => (-2,-1), 10 => (1,2), 6 => (1,-2), -6 => (-1,2), -10 => (-1,-2), _ => (0,0)};
                let nr = r + dr; let nf = f + df;
                if nr >= 0 && nr < 8 && nf >= 0 && nf < 8 { out |= 1u64 << ((nr*8+nf) as u8); }
            }
            s += 1;
        }
        out
    }

    #[kani::proof]
    #[kani::unwind(65)]
    fn shift_matches_geometry() {
        let bb: u64 = kani::any();
        let dir: i8 = kani::any();
        kani::assume(dir == 8 || dir == -8 || dir == 1 || dir == -1 || dir == 9 || dir == 7 || dir == -7 || dir == -9
            || dir == 17 || dir == 15 || dir == -15 || dir == -17 || dir == 10 || dir == 6 || dir == -6 || dir == -10);
        assert_eq!(bb.shift(dir), spec_shift(bb, dir));
    }
}
