pub assume_specification [u64::checked_shl] (x: u64, n: u32) -> (r: std::option::Option<u64>)
    ensures r == (if n < 64 { Some((x << n) as u64) } else { None::<u64> });
pub assume_specification [u64::checked_shr] (x: u64, n: u32) -> (r: std::option::Option<u64>)
    ensures r == (if n < 64 { Some((x >> n) as u64) } else { None::<u64> });
pub assume_specification [u64::count_ones] (x: u64) -> (r: u32)
    ensures r <= 64;
pub assume_specification [i32::saturating_add] (x: i32, y: i32) -> (r: i32)
    ensures r == (if x + y > i32::MAX { i32::MAX } else if x + y < i32::MIN { i32::MIN } else { (x + y) as i32 });
pub assume_specification<T: std::cmp::Ord> [std::cmp::max] (x: T, y: T) -> (r: T)
    ensures r == x || r == y;
pub assume_specification<T: std::cmp::Ord> [std::cmp::min] (x: T, y: T) -> (r: T)
    ensures r == x || r == y;

#[verifier::external_type_specification] #[verifier::external_body] pub struct ExInstant(std::time::Instant);
pub uninterp spec fn spec_parse_u64(s: &str) -> Option<u64>;
pub uninterp spec fn spec_parse_u8(s: &str) -> Option<u8>;
#[verifier::external_type_specification] #[verifier::external_body] pub struct ExParseIntError(core::num::ParseIntError);
pub uninterp spec fn spec_parse<F>(s: &str) -> Option<F>;
pub assume_specification<F: std::str::FromStr> [str::parse::<F>] (s: &str) -> (r: Result<F, <F as std::str::FromStr>::Err>)
    ensures match r { Ok(v) => spec_parse::<F>(s) == Some(v), Err(_) => spec_parse::<F>(s).is_none() };
pub assume_specification<T, E> [Result::<T, E>::unwrap_or] (r: Result<T, E>, d: T) -> (o: T)
    ensures o == (match r { Ok(v) => v, Err(_) => d });
pub uninterp spec fn dur_ms(d: std::time::Duration) -> nat;
pub assume_specification [std::time::Duration::from_millis] (ms: u64) -> (d: std::time::Duration)
    ensures dur_ms(d) == ms;
pub assume_specification [std::process::exit] (code: i32) -> !
    requires code == 0;
#[verifier::external_trait_specification]
pub trait ExFromStr: Sized {
    type ExternalTraitSpecificationFor: std::str::FromStr;
    type Err;
    fn from_str(s: &str) -> Result<Self, Self::Err>;
}
