#!/bin/sh
# offline setup: build the signature-only rand shim used by single-file verus
set -e
cd "$(dirname "$0")/.."
mkdir -p build evidence
rustc +1.98.1-x86_64-unknown-linux-gnu --edition 2021 --crate-type rlib --crate-name rand -o build/librand.rlib shim/rand_shim.rs
verus --version >/dev/null
echo setup-ok
