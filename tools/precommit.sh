#!/bin/sh
# developer helper: refuse to commit evidence that was written while /repo was modified or that records a failed/undecided run
cd "$(dirname "$0")/.." || exit 2
[ -n "$(git -C /repo status --short)" ] && { echo "PRECOMMIT: /repo has uncommitted changes (a seeded change still applied?)"; exit 1; }
python3 - <<'PY' || exit 1
import json,glob,sys
bad=[]
for f in sorted(glob.glob('evidence/C*.json')):
    d=json.load(open(f)); c=d.get('coverage',{})
    if d.get('level')!='proof' or d.get('violations') or c.get('obligations',0)<1 or c.get('obligations')!=c.get('discharged'):
        bad.append((f,d.get('level'),c.get('obligations'),c.get('discharged'),d.get('violations')))
if bad:
    print("PRECOMMIT: evidence not from a clean green run:", bad); sys.exit(1)
print("precommit ok: %d evidence files green" % len(glob.glob('evidence/C*.json')))
PY
