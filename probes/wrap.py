import re,sys
mods=['bitboard','board','moves','pieces','square','transposition','repetition','killer_moves','history','timer','eval','zobrist','lookup','magic','move_gen','search','uci']
ext = {l.strip() for l in open('ext.txt')} if len(sys.argv)>1 else set()
out=["use vstd::prelude::*;\nverus!{\n"+open("stdspec.rs").read()+"\n}\n"]
for m in mods:
    s=open(f'/repo/src/{m}.rs').read()
    i=s.find('#[cfg(test)]')
    if i>=0: s=s[:i]
    # mark externals:  "mod::fnname"
    def mark(mt):
        name=mt.group(3)
        if f"{m}::{name}" in ext:
            return mt.group(1)+"#[verifier::external_body]\n"+mt.group(1)+mt.group(2)+"fn "+name
        return mt.group(0)
    s=re.sub(r'(?m)^([ \t]*)((?:pub(?:\([a-z]+\))? )?)fn (\w+)', mark, s)
    s=re.sub(r'(?m)^static (\w+): ([^=]+) = ', r'exec static \1: \2 ensures true { ', s) if False else s
    s=re.sub(r'(?m)^static ', 'const ', s)
    s=s.replace('impl std::fmt::Display for','#[verifier::external]\nimpl std::fmt::Display for')
    s=s.replace('#[derive(Debug, Clone)]','#[derive(Clone)]')

    out.append(f"pub mod {m} {{\nuse vstd::prelude::*;\nverus! {{\n{s}\n}} // verus!\n}}\n")
out.append("mod fen { use crate::board::Board; pub fn fen_to_board(_f:&str)->Result<Board,String>{ unimplemented!() } }\nfn main(){}\n")
open('all.rs','w').write(''.join(out))
