//! Kani leaf harnesses. The engine modules are the real files of /repo/src.
#![allow(dead_code, unused_imports)]
#[path = "/repo/src/bitboard.rs"] mod bitboard;
#[path = "/repo/src/board.rs"] mod board;
#[path = "/repo/src/fen.rs"] mod fen;
#[path = "/repo/src/moves.rs"] mod moves;
#[path = "/repo/src/pieces.rs"] mod pieces;
#[path = "/repo/src/square.rs"] mod square;

fn main() {}

#[cfg(kani)]
mod harness {
    use crate::board::{Board, Castle, Position};
    use crate::pieces::{Color, Piece};

    fn any_board() -> Board {
        let pcs: [u64; 6] = kani::any();
        let cls: [u64; 2] = kani::any();
        Board {
            position: Position::verif_from_raw(pcs, cls),
            active_color: Color::White,
            castling_ability: Castle::new(false, false, false, false),
            en_passant_target: None,
            halfmove_clock: 0,
            fullmove_counter: 1,
        }
    }
    fn kind(i: usize) -> Piece { match i { 0 => Piece::Pawn, 1 => Piece::Knight, 2 => Piece::Bishop, 3 => Piece::Rook, 4 => Piece::Queen, _ => Piece::King } }

    /// the ASSUMED Verus contract of Board::get_piece_at: r == position.piece_on(square), i.e. the first kind in the order
    /// P,N,B,R,Q,K whose bitboard has the square's bit - for ALL eight bitboards (well-formed or not) and all squares
    #[kani::proof]
    #[kani::unwind(8)]
    fn get_piece_at_contract() {
        let b = any_board();
        let sq: u8 = kani::any();
        kani::assume(sq < 64);
        let r = b.get_piece_at(sq);
        let mut expect: Option<Piece> = None;
        let mut i = 0;
        while i < 6 {
            if expect.is_none() && (b.bb_piece(kind(i)) >> sq) & 1 == 1 { expect = Some(kind(i)); }
            i += 1;
        }
        assert!(r == expect);
    }

    #[kani::proof]
    #[kani::unwind(4)]
    fn get_color_at_contract() {
        let b = any_board();
        let sq: u8 = kani::any();
        kani::assume(sq < 64);
        let r = b.get_color_at(sq);
        let expect = if (b.bb_color(Color::White) >> sq) & 1 == 1 { Some(Color::White) } else if (b.bb_color(Color::Black) >> sq) & 1 == 1 { Some(Color::Black) } else { None };
        assert!(r == expect);
    }

    // ------------------------------------------------------------------------------------------------------------
    // The ASSUMED specifications of std scalar functions in contracts/std.vspec, checked against std itself for EVERY
    // argument (loop-free, or one loop bounded by the operand width with unwinding assertions on): complete proofs.
    // The right-hand sides below are transliterations of the `ensures` clauses of the assume_specification items.
    // ------------------------------------------------------------------------------------------------------------
    #[kani::proof]
    fn std_checked_shifts() {
        let x: u64 = kani::any(); let n: u32 = kani::any();
        assert!(x.checked_shl(n) == if n < 64 { Some(x << n) } else { None });
        assert!(x.checked_shr(n) == if n < 64 { Some(x >> n) } else { None });
    }
    /// popcount(x) = if x == 0 { 0 } else { 1 + popcount(x & (x - 1)) }   (the recursive spec function of std.vspec)
    #[kani::proof]
    #[kani::unwind(66)]
    fn std_count_ones() {
        let x: u64 = kani::any();
        let mut y = x; let mut n: u32 = 0;
        while y != 0 { y &= y - 1; n += 1; }
        assert!(x.count_ones() == n && n <= 64);
    }
    #[kani::proof]
    fn std_saturating_add_i32() {
        let x: i32 = kani::any(); let y: i32 = kani::any();
        let w = x as i64 + y as i64;
        let want = if w > i32::MAX as i64 { i32::MAX } else if w < i32::MIN as i64 { i32::MIN } else { w as i32 };
        assert!(x.saturating_add(y) == want);
    }
    #[kani::proof]
    fn std_max_min_i32() {
        let x: i32 = kani::any(); let y: i32 = kani::any();
        let mx = std::cmp::max(x, y); let mn = std::cmp::min(x, y);
        assert!(mx == if x > y { x } else { y });
        assert!(mn == if x > y { y } else { x });
    }
    #[kani::proof]
    fn std_char_fns() {
        let c: char = kani::any();
        assert!(c.to_digit(10) == if '0' <= c && c <= '9' { Some(c as u32 - '0' as u32) } else { None });
        assert!(c.to_ascii_lowercase() == if 'A' <= c && c <= 'Z' { (c as u8 + 32) as char } else { c });
        if 'a' <= c && c <= 'z' { assert!(c.is_lowercase()); }
        if 'A' <= c && c <= 'Z' { assert!(!c.is_lowercase()); }
    }

    #[kani::proof]
    fn std_int_extras() {
        let x: i32 = kani::any(); let y: i32 = kani::any();
        let w = x as i64 - y as i64;
        let want = if w > i32::MAX as i64 { i32::MAX } else if w < i32::MIN as i64 { i32::MIN } else { w as i32 };
        assert!(x.saturating_sub(y) == want);
        if x != i32::MIN { assert!(x.abs() as i64 == if x < 0 { -(x as i64) } else { x as i64 }); }
    }
}
