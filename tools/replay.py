#!/usr/bin/env python3
"""
./check <ID> --replay FILE

Re-executes the failing input recorded in a replay file against the REAL code (the native replay crate, which includes
/repo/src/*.rs by #[path], rebuilt from the current working tree) and prints real vs. expected.
Exit 1 = the violation reproduces on the current tree, 0 = it does not (any more), 2 = nothing executable in the file
(a `no-failing-input-found` record: the failed obligation and the verifier's output are printed).
"""
import json
import shlex
import sys

import backends


def replay_file(path):
    try:
        rec = json.load(open(path))
    except (OSError, ValueError) as e:
        print("cannot read replay file %s: %s" % (path, e))
        return 2
    print("property   : %s" % rec.get("property"))
    print("obligation : %s (%s)" % (rec.get("obligation"), rec.get("backend")))
    for v in rec.get("verifier_output", [])[:4]:
        print("verifier   : " + "\n             ".join(str(v).splitlines()[:25]))
    cmdline = rec.get("found_by")
    if not cmdline or rec.get("input") is None:
        print("no executable input recorded (no-failing-input-found): the obligation above is what failed")
        return 2
    if not backends.build():
        print("native replay crate does not build against the current tree:\n" + backends._built["log"][-1500:])
        return 2
    toks = shlex.split(cmdline)
    # found_by is "<bin> <cmd> args..." as recorded by backends.run_native
    cmd, args = toks[1], [a for a in toks[2:] if not a.startswith("--seed=")]
    inp = rec.get("input") or {}
    if isinstance(inp, dict) and "fen" in inp and not any(a.startswith("--fen=") for a in args):
        args.append("--fen=" + inp["fen"])
    out = backends.run_native(cmd, args, rec.get("seed", 1), timeout=900)
    print("input      : %s" % json.dumps(rec.get("input")))
    print("expected   : %s" % json.dumps(rec.get("expected")))
    if out.get("status") == "violation":
        v = out["violation"]
        print("real (now) : %s" % json.dumps(v.get("real")))
        print("REPRODUCED on the current tree (input %s)" % json.dumps(v.get("input")))
        return 1
    if out.get("status") == "crashed":
        print("real (now) : crash\n%s" % out.get("stderr", "")[-800:])
        print("REPRODUCED on the current tree (crash)")
        return 1
    print("real (now) : no violation (%s evaluations; %s)" % (out.get("evaluations"), out.get("bound")))
    print("not reproduced on the current tree")
    return 0


if __name__ == "__main__":
    sys.exit(replay_file(sys.argv[1]))
