//! Kani leaf harnesses. The engine modules are the real files of /repo/src.
#![allow(dead_code, unused_imports)]
#[path = "/repo/src/bitboard.rs"] mod bitboard;
#[path = "/repo/src/board.rs"] mod board;
#[path = "/repo/src/fen.rs"] mod fen;
#[path = "/repo/src/moves.rs"] mod moves;
#[path = "/repo/src/pieces.rs"] mod pieces;
#[path = "/repo/src/square.rs"] mod square;

fn main() {}

#[cfg(kani)]
mod harness {
    use crate::board::{Board, Castle, Position};
    use crate::pieces::{Color, Piece};

    fn any_board() -> Board {
        let pcs: [u64; 6] = kani::any();
        let cls: [u64; 2] = kani::any();
        Board {
            position: Position::verif_from_raw(pcs, cls),
            active_color: Color::White,
            castling_ability: Castle::new(false, false, false, false),
            en_passant_target: None,
            halfmove_clock: 0,
            fullmove_counter: 1,
        }
    }
    fn kind(i: usize) -> Piece { match i { 0 => Piece::Pawn, 1 => Piece::Knight, 2 => Piece::Bishop, 3 => Piece::Rook, 4 => Piece::Queen, _ => Piece::King } }

    /// the ASSUMED Verus contract of Board::get_piece_at: r == position.piece_on(square), i.e. the first kind in the order
    /// P,N,B,R,Q,K whose bitboard has the square's bit - for ALL eight bitboards (well-formed or not) and all squares
    #[kani::proof]
    #[kani::unwind(8)]
    fn get_piece_at_contract() {
        let b = any_board();
        let sq: u8 = kani::any();
        kani::assume(sq < 64);
        let r = b.get_piece_at(sq);
        let mut expect: Option<Piece> = None;
        let mut i = 0;
        while i < 6 {
            if expect.is_none() && (b.bb_piece(kind(i)) >> sq) & 1 == 1 { expect = Some(kind(i)); }
            i += 1;
        }
        assert!(r == expect);
    }

    #[kani::proof]
    #[kani::unwind(4)]
    fn get_color_at_contract() {
        let b = any_board();
        let sq: u8 = kani::any();
        kani::assume(sq < 64);
        let r = b.get_color_at(sq);
        let expect = if (b.bb_color(Color::White) >> sq) & 1 == 1 { Some(Color::White) } else if (b.bb_color(Color::Black) >> sq) & 1 == 1 { Some(Color::Black) } else { None };
        assert!(r == expect);
    }
}
