#!/usr/bin/env python3
"""developer helper: tools/vfail.py <module> [rlimit]  -- per-function verdicts (time, ok) of one module of the dev extraction"""
import json, subprocess, sys, os
V = os.path.dirname(os.path.dirname(os.path.abspath(__file__)))
mod = sys.argv[1]
rl = sys.argv[2] if len(sys.argv) > 2 else "20"
env = dict(os.environ, VERIF_LIGHT="1")
subprocess.run([sys.executable, os.path.join(V, "tools/extract.py"), os.path.join(V, "build/dev/flounder_v.rs"), os.path.join(V, "build/dev/report.json")], env=env, check=True, stdout=subprocess.DEVNULL)
p = subprocess.run(["verus", os.path.join(V, "build/dev/flounder_v.rs"), "--crate-type", "bin", "--extern", "rand=" + os.path.join(V, "build/librand.rlib"),
                    "--verify-only-module", mod, "--output-json", "--time-expanded", "--rlimit", rl, "--multiple-errors", "2", "--triggers-mode", "silent"],
                   stdout=subprocess.PIPE, stderr=subprocess.PIPE, text=True)
try:
    res = json.loads(p.stdout)
except ValueError:
    print(p.stderr[-3000:]); sys.exit(2)
rep = json.load(open(os.path.join(V, "build/dev/report.json")))
contracted = set(rep["under_contract"])
for mt in res["times-ms"]["smt"].get("smt-run-module-times", []):
    for fb in sorted(mt.get("function-breakdown", []), key=lambda f: f["function"]):
        nm = fb["function"].split("::", 1)[1]
        short = nm.replace("MoveGenerator::", "")
        tag = "C" if any(nm.endswith(c.split("::", 1)[1]) for c in contracted) else " "
        print("%s %-6s %6d ms  %s" % (tag, "ok" if fb["success"] else "FAIL", fb["time"], nm))
print(res["verification-results"])
