use vstd::prelude::*;
use vstd::std_specs::ops::*;
use std::ops::{Index, IndexMut};
use vstd::std_specs::core::IndexSpecImpl;
verus! {
pub type Bitboard = u64;
pub const PIECE_COUNT: usize = 6;
#[derive(Copy, Clone, PartialEq, Eq, Debug)]
pub enum Piece { Pawn, Knight, Bishop, Rook, Queen, King }
#[derive(Copy, Clone, PartialEq, Eq, Debug)]
pub enum Color { White, Black }

impl NotSpecImpl for Color {
    open spec fn obeys_not_spec() -> bool { true }
    open spec fn not_req(self) -> bool { true }
    open spec fn not_spec(self) -> Color { match self { Color::White => Color::Black, Color::Black => Color::White } }
}
impl std::ops::Not for Color {
    type Output = Color;

    fn not(self) -> Self::Output {
        match self {
            Color::White => Color::Black,
            Color::Black => Color::White,
        }
    }
}

pub open spec fn pidx(p: Piece) -> int { match p { Piece::Pawn => 0, Piece::Knight => 1, Piece::Bishop => 2, Piece::Rook => 3, Piece::Queen => 4, Piece::King => 5 } }

impl IndexSpecImpl<Piece> for [Bitboard; PIECE_COUNT] {
    open spec fn index_req(&self, piece: &Piece) -> bool { true }
}

impl Index<Piece> for [Bitboard; PIECE_COUNT] {
    type Output = Bitboard;

    fn index(&self, piece: Piece) -> (r: &Self::Output)
        ensures *r == self[pidx(piece)]
    {
        match piece {
            Piece::Pawn => &self[0],
            Piece::Knight => &self[1],
            Piece::Bishop => &self[2],
            Piece::Rook => &self[3],
            Piece::Queen => &self[4],
            Piece::King => &self[5],
        }
    }
}

impl IndexMut<Piece> for [Bitboard; PIECE_COUNT] {
    fn index_mut(&mut self, piece: Piece) -> (r: &mut Self::Output)
        ensures *r == old(self)[pidx(piece)], final(self)@ == old(self)@.update(pidx(piece), *final(r))
    {
        match piece {
            Piece::Pawn => &mut self[0],
            Piece::Knight => &mut self[1],
            Piece::Bishop => &mut self[2],
            Piece::Rook => &mut self[3],
            Piece::Queen => &mut self[4],
            Piece::King => &mut self[5],
        }
    }
}

fn test(a: [Bitboard; PIECE_COUNT], c: Color) -> (r: u64)
    ensures r == a[5]
{
    let d = !c;
    assert(d != c);
    a[Piece::King]
}
fn test2(a: &mut [Bitboard; PIECE_COUNT])
    ensures final(a)[3] == 7
{
    a[Piece::Rook] = 7;
}
}
fn main(){}
