#![feature(allocator_api)]
use vstd::prelude::*;
verus! {
pub assume_specification<T, A: std::alloc::Allocator, F: FnMut(&T) -> bool> [std::vec::Vec::<T, A>::retain] (v: &mut std::vec::Vec<T, A>, f: F)
    requires forall|x: &T| #[trigger] f.requires((x,)),
    ensures
        // every call outcome is some b allowed by f.ensures; if f is deterministic (ensures functional) this pins the result
        exists|keep: spec_fn(T) -> bool| (forall|x: T| f.ensures((&x,), #[trigger] keep(x))) && final(v)@ == old(v)@.filter(keep);

pub struct G { pub k: u64 }
impl G {
    pub open spec fn keep_spec(&self, x: u64) -> bool { x & self.k != 0 }
    fn keep(&self, x: &u64) -> (b: bool)
        ensures b == self.keep_spec(*x)
    { *x & self.k != 0 }

    fn filt(&self, v: &mut Vec<u64>)
        ensures final(v)@ == old(v)@.filter(|x: u64| self.keep_spec(x))
    {
        v.retain(|x: &u64| -> (b: bool) ensures b == self.keep_spec(*x) { self.keep(x) });
        proof {
            let ks = |x: u64| self.keep_spec(x);
            assert forall|keep: spec_fn(u64) -> bool| (forall|x: u64| #[trigger] keep(x) == self.keep_spec(x)) implies old(v)@.filter(keep) == old(v)@.filter(ks) by {
                assert(keep =~= ks);
            }
        }
    }
}
}
fn main(){}
