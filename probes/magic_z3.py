import re, sys, time
from z3 import *
src=open('/repo/src/magic.rs').read()
def arr(name):
    m=re.search(r'static '+name+r': \[\w+; 64\] = \[(.*?)\];', src, re.S)
    return [int(x,0) for x in re.findall(r'0x[0-9a-fA-F]+|\d+', m.group(1))]
RB=arr('ROOK_RELEVANT_BITS'); BB=arr('BISHOP_RELEVANT_BITS'); RM=arr('ROOK_MAGICS'); BM=arr('BISHOP_MAGICS')
def rays(sq, dirs):
    r0,f0=divmod(sq,8); out=[]
    for dr,df in dirs:
        l=[]; r,f=r0+dr,f0+df
        while 0<=r<8 and 0<=f<8:
            l.append(r*8+f); r+=dr; f+=df
        out.append(l)
    return out
def attacks(occ, rs):
    att=BitVecVal(0,64)
    for l in rs:
        blocked=BoolVal(False)
        for s in l:
            att = att | If(blocked, BitVecVal(0,64), BitVecVal(1<<s,64))
            blocked = Or(blocked, Extract(s,s,occ)==1)
    return att
def mask_of(rs):
    m=0
    for l in rs:
        for s in l[:-1]: m|=1<<s
    return m
def check(sq, rook):
    dirs=[(1,0),(-1,0),(0,1),(0,-1)] if rook else [(1,1),(1,-1),(-1,1),(-1,-1)]
    rs=rays(sq,dirs); mask=mask_of(rs); bits=(RB if rook else BB)[sq]; M=(RM if rook else BM)[sq]
    assert bin(mask).count('1')==bits, (sq, rook, bin(mask).count('1'), bits)
    o1,o2=BitVecs('o1 o2',64)
    s=Solver()
    s.add(o1 & ~BitVecVal(mask,64)==0, o2 & ~BitVecVal(mask,64)==0)
    s.add(LShR(o1*BitVecVal(M,64), 64-bits)==LShR(o2*BitVecVal(M,64),64-bits))
    s.add(attacks(o1,rs)!=attacks(o2,rs))
    t=time.time(); r=s.check(); return r, time.time()-t
for sq in [0, 27, 63]:
    for rook in (True, False):
        print(sq, 'rook' if rook else 'bishop', *check(sq, rook), flush=True)
print("--- perturbed magics")
RM[27]^=1<<40; BM[27]^=1<<33
for rook in (True, False):
    print(27, 'rook' if rook else 'bishop', *check(27, rook), flush=True)
RM[0]=0x1234567; print(0,'rook',*check(0,True))
