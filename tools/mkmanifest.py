#!/usr/bin/env python3
"""Regenerates MANIFEST.json from contracts/OBLIGATIONS.json (claimed properties) + the not_applicable table there."""
import json, os
V = os.path.dirname(os.path.dirname(os.path.abspath(__file__)))
obl = json.load(open(os.path.join(V, "contracts", "OBLIGATIONS.json")))
props = [json.loads(l) for l in open(os.path.join(V, "properties.jsonl")) if l.strip()]
checks = []
for p in props:
    pid = p["id"]
    sp = obl["properties"].get(pid)
    if not sp or sp.get("unclaimed"):
        continue
    checks.append({
        "property_id": pid,
        "quick_cmd": "./check %s --tier quick" % pid,
        "thorough_cmd": "./check %s --tier thorough" % pid,
        "evidence_file": "/verif/evidence/%s.json" % pid,
        "replay_cmd_template": "./check %s --replay {path}" % pid,
        "engine": "verus-contracts",
        "level_claimed": {"category": "proof", "text": sp["level_text"], "design_ref": sp.get("design_ref", "DESIGN.md §6 " + pid)},
        "level_note": sp["level_note"],
        "technique": sp.get("technique", "contract-based deductive verification (Verus) of the real functions, extracted verbatim each run"),
    })
na = [{"property_id": k, "reason": v} for k, v in obl.get("not_applicable", {}).items()]
claimed = {c["property_id"] for c in checks}
for p in props:
    if p["id"] not in claimed and p["id"] not in obl.get("not_applicable", {}):
        na.append({"property_id": p["id"], "reason": "contracts not yet mechanised in this revision (see DESIGN.md §11); not claimed"})
m = {
    "version": 1,
    "setup_cmd": "sh tools/setup.sh",
    "hooks": {"guard": "flounder_verif", "enable": "RUSTFLAGS='--cfg flounder_verif' (replay/kani crates only; Verus never sees hook items)",
              "baseline_off_cmd": "cd /repo && cargo test --workspace --no-fail-fast --offline",
              "source_commits": obl.get("hook_commits", []), "add_only": True},
    "engines": [
        {"name": "verus-contracts", "path": "/verif/check", "serves_properties": sorted(claimed),
         "kind_free_text": "tools/extract.py wraps /repo/src/*.rs verbatim into one verus! crate and splices contracts/*.vspec at anchors; Verus 0.2026.09.13 discharges every obligation function by function; Kani 0.68 only for scalar leaves / counterexamples; native replay of counterexamples"}],
    "checks": checks,
    "not_applicable": na,
    "notes": "Exit codes of ./check: 0 all obligations discharged; 1 VIOLATION line(s); 2 undecided (tool error, lost anchor, rlimit) - never an alarm.",
}
json.dump(m, open(os.path.join(V, "MANIFEST.json"), "w"), indent=1)
print("MANIFEST: %d checks, %d not_applicable" % (len(checks), len(na)))
