#!/bin/sh
# confirm_seed.sh <name> <patch.diff> <demo.diff> [base-commit]
# Confirms in a scratch worktree that (A) demo alone passes on the base tree, (B) with the patch every pre-existing test
# still passes and at least one demo test fails.  Writes <seeded dir>/confirm.log; removes the worktree afterwards.
# SEED_CFG=1: the demo tests are #[cfg(flounder_verif)]-gated and share a process-wide hook: build with the cfg, one test
# thread, and additionally (C) run the patched tree with the guard off.
set -u
name=$1; patch=$2; demo=$3; base=${4:-HEAD}
wt=/tmp/seedchk_$name
out=/verif/seeded/$name
mkdir -p "$out"
git -C /repo worktree remove --force "$wt" 2>/dev/null
git -C /repo worktree add -q --detach "$wt" "$base" || exit 2
cd "$wt" || exit 2
export CARGO_NET_OFFLINE=true CARGO_TARGET_DIR=$wt/target
tt=""; if [ "${SEED_CFG:-0}" = 1 ]; then export RUSTFLAGS="--cfg flounder_verif"; tt="-- --test-threads=1"; fi
{
echo "== base $(git rev-parse --short HEAD)"
git apply "$demo" || echo "DEMO-APPLY-FAILED"
echo "== A: demo only"
cargo test --offline $tt 2>&1 | grep -E "^test result|FAILED|failed|panicked" | head -20
git checkout -q -- . ; git clean -fdq -e target
git apply "$patch" || echo "PATCH-APPLY-FAILED"
git apply "$demo" || echo "DEMO-APPLY-AFTER-PATCH-FAILED"
echo "== B: patch + demo"
cargo test --offline $tt 2>&1 | grep -E "^test result|^test .* FAILED|^failures:|^    [a-z_:0-9]+$" | head -40
if [ "${SEED_CFG:-0}" = 1 ]; then
echo "== C: patch only, guard off"
git checkout -q -- . ; git clean -fdq -e target; git apply "$patch"
RUSTFLAGS= cargo test --offline 2>&1 | grep -E "^test result|FAILED" | head
fi
} > "$out/confirm.log" 2>&1
cd /; git -C /repo worktree remove --force "$wt"
# report what the log says instead of an unconditional "confirmed"
if grep -q "APPLY-FAILED" "$out/confirm.log"; then echo "NOT CONFIRMED $name: a diff did not apply (see $out/confirm.log)"; exit 1; fi
a=$(grep -m1 "^test result" "$out/confirm.log"); b=$(grep "^test result" "$out/confirm.log" | sed -n 2p)
case "$a" in *"ok."*) ;; *) echo "NOT CONFIRMED $name: demo alone does not pass on the base tree: $a"; exit 1;; esac
case "$b" in *FAILED*) echo "confirmed $name: A: $a | B: $b";; *) echo "NOT CONFIRMED $name: nothing fails with the patch: $b"; exit 1;; esac
