use vstd::prelude::*;
verus! {
exec static ROOK_RELEVANT_BITS: [usize; 4] ensures ROOK_RELEVANT_BITS@ == seq![12usize, 11, 11, 12] { [12, 11, 11, 12] }
exec const BISH: [usize; 4] ensures BISH@ == seq![1usize,2,3,4] { [1,2,3,4] }

fn get(i: usize) -> (r: usize)
    requires i < 4
    ensures r == seq![12usize, 11, 11, 12][i as int]
{
    ROOK_RELEVANT_BITS[i]
}

pub struct RepetitionTable { pub hashes: Vec<u64> }
pub open spec fn count(s: Seq<u64>, h: u64) -> nat decreases s.len() {
    if s.len() == 0 { 0 } else { (if s.last() == h { 1nat } else { 0nat }) + count(s.drop_last(), h) }
}
impl RepetitionTable {
    pub fn is_repetition(&self, current_hash: u64) -> (r: bool)
        ensures r == (count(self.hashes@, current_hash) >= 2)
    {
        let mut count = 0;

        for hash__r in self.hashes.iter().rev() {
            let hash = *hash__r;
            if hash == current_hash {
                count += 1;
                if count >= 2 {
                    return true;
                }
            }
        }

        false
    }
}
}
fn main(){}
