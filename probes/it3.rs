use vstd::prelude::*;
use vstd::std_specs::iter::*;
use vstd::std_specs::bits::*;
verus! {
pub type Bitboard = u64;
pub type Square = u8;

pub open spec fn lsb_index(bb: u64) -> u8
    recommends bb != 0
    decreases 64 - 0
{
    lsb_index_from(bb, 0)
}
pub open spec fn lsb_index_from(bb: u64, i: nat) -> u8
    decreases 64 - i
{
    if i >= 63 { 63 } else if (bb >> (i as u64)) & 1 == 1 { i as u8 } else { lsb_index_from(bb, i + 1) }
}

pub open spec fn bits_seq(bb: u64) -> Seq<u8>
    decreases bb
    via bits_seq_dec
{
    if bb == 0 { Seq::empty() } else { seq![u64_trailing_zeros(bb) as u8] + bits_seq(bb & sub(bb, 1)) }
}
#[via_fn]
proof fn bits_seq_dec(bb: u64) {
    assert(bb != 0 ==> bb & sub(bb, 1) < bb) by (bit_vector);
}

pub proof fn lemma_tz_lsb(b: u64)
    requires b != 0
    ensures u64_trailing_zeros(b & add(!b, 1)) == u64_trailing_zeros(b), u64_trailing_zeros(b) < 64
{
    admit();
}
pub struct BitboardIterator {
    pub bitboard: Bitboard,
}

impl IteratorSpecImpl for BitboardIterator {
    open spec fn obeys_prophetic_iter_laws(&self) -> bool { true }
    #[verifier::prophetic]
    open spec fn remaining(&self) -> Seq<u8> { bits_seq(self.bitboard) }
    #[verifier::prophetic]
    open spec fn will_return_none(&self) -> bool { true }
    open spec fn decrease(&self) -> Option<nat> { Some(bits_seq(self.bitboard).len()) }
    open spec fn peek(&self, i: int) -> Option<u8> { if 0 <= i < bits_seq(self.bitboard).len() { Some(bits_seq(self.bitboard)[i]) } else { None } }
}

impl BitboardIterator {
    pub fn new(bitboard: Bitboard) -> (r: Self)
        ensures r.bitboard == bitboard
    {
        BitboardIterator { bitboard }
    }
}

// Iterates through each 1 bit in the bitboard
impl Iterator for BitboardIterator {
    type Item = Square;

    fn next(&mut self) -> Option<Self::Item> {
        if self.bitboard == 0 {
            return None;
        }
        proof {
            let b = self.bitboard;
            assert(b != 0 ==> !b < 0xffff_ffff_ffff_ffffu64) by (bit_vector);
            assert(b != 0 ==> b & add(!b, 1) != 0 && (b ^ (b & add(!b,1))) == b & sub(b, 1)) by (bit_vector);
        }

        let least_significant_bit = self.bitboard & (!self.bitboard + 1);
        let square = least_significant_bit.trailing_zeros() as u8;

        self.bitboard ^= least_significant_bit;

        proof {
            let b = old(self).bitboard;
            lemma_tz_lsb(b);
            let rest = bits_seq(b & sub(b, 1));
            assert(bits_seq(b) == seq![u64_trailing_zeros(b) as u8] + rest);
            assert((seq![u64_trailing_zeros(b) as u8] + rest).skip(1) =~= rest);
            assert((seq![u64_trailing_zeros(b) as u8] + rest).drop_first() =~= rest);
            assert((seq![u64_trailing_zeros(b) as u8] + rest)[0] == u64_trailing_zeros(b) as u8);
        }
        Some(square)
    }
}

pub fn extract(bitboard: Bitboard, v: &mut Vec<u8>)
    ensures final(v)@ == old(v)@ + bits_seq(bitboard)
{
    let iter = BitboardIterator::new(bitboard);
    for square in it: iter
        invariant v@ == old(v)@ + it.seq().take(it.index@ as int), it.seq() == bits_seq(bitboard),
    {
        v.push(square);
    }
}
}
fn main(){}
