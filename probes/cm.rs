use vstd::prelude::*;
verus! {
#[verifier::external_type_specification] #[verifier::external_body] pub struct ExParseIntError(core::num::ParseIntError);
pub uninterp spec fn spec_parse<F>(s: &str) -> Option<F>;
#[verifier::external_trait_specification]
pub trait ExFromStr: Sized {
    type ExternalTraitSpecificationFor: std::str::FromStr;
    type Err;
    fn from_str(s: &str) -> Result<Self, Self::Err>;
}
pub assume_specification<F: std::str::FromStr> [str::parse::<F>] (s: &str) -> (r: Result<F, <F as std::str::FromStr>::Err>)
    ensures match r { Ok(v) => spec_parse::<F>(s) == Some(v), Err(_) => spec_parse::<F>(s).is_none() };
pub assume_specification<T, E> [Result::<T, E>::unwrap_or] (r: Result<T, E>, d: T) -> (o: T)
    ensures o == (match r { Ok(v) => v, Err(_) => d });

fn scan(parts: &[&str], start_idx: usize) -> (r: (u64, u64))
{
        let mut wtime = 0u64;
        let mut btime = 0u64;

        let mut i = start_idx;
        while i < parts.len()
            invariant true
            decreases parts.len() - i
        {
            match parts[i] {
                "wtime" => {
                    if i + 1 < parts.len() {
                        wtime = parts[i + 1].parse().unwrap_or(0);
                    }
                    i += 2;
                }
                "btime" => {
                    if i + 1 < parts.len() {
                        btime = parts[i + 1].parse().unwrap_or(0);
                    }
                    i += 2;
                }
                _ => {
                    i += 1;
                }
            }
        }
    (wtime, btime)
}
}
fn main(){}
