//! Native replay / bounded stand-in tool. The engine modules are the real files of /repo/src.
#![allow(dead_code, unused_imports)]
#[path = "/repo/src/bitboard.rs"] mod bitboard;
#[path = "/repo/src/board.rs"] mod board;
#[path = "/repo/src/eval.rs"] mod eval;
#[path = "/repo/src/fen.rs"] mod fen;
#[path = "/repo/src/history.rs"] mod history;
#[path = "/repo/src/killer_moves.rs"] mod killer_moves;
#[path = "/repo/src/lookup.rs"] mod lookup;
#[path = "/repo/src/magic.rs"] mod magic;
#[path = "/repo/src/move_gen.rs"] mod move_gen;
#[path = "/repo/src/moves.rs"] mod moves;
#[path = "/repo/src/pieces.rs"] mod pieces;
#[path = "/repo/src/repetition.rs"] mod repetition;
#[path = "/repo/src/search.rs"] mod search;
#[path = "/repo/src/square.rs"] mod square;
#[path = "/repo/src/timer.rs"] mod timer;
#[path = "/repo/src/transposition.rs"] mod transposition;
#[path = "/repo/src/uci.rs"] mod uci;
#[path = "/repo/src/util.rs"] mod util;
#[path = "/repo/src/zobrist.rs"] mod zobrist;

mod refchess;
mod cmds;

fn main() {
    let args: Vec<String> = std::env::args().collect();
    if args.len() < 2 {
        eprintln!("usage: flounder_replay <command> [args...]");
        std::process::exit(2);
    }
    let code = cmds::dispatch(&args[1], &args[2..]);
    std::process::exit(code);
}
