#!/usr/bin/env python3
"""Writes the 16 per-direction lemmas for Bitboard::shift (text pasted into contracts/bitboard.vspec)."""
FH, FA = 0x8080808080808080, 0x0101010101010101
FGH, FAB = 0xC0C0C0C0C0C0C0C0, 0x0303030303030303
dirs = [  # dir, left?, amount, mask, df
    (8, True, 8, 0, 0), (-8, False, 8, 0, 0), (1, True, 1, FH, 1), (-1, False, 1, FA, -1),
    (9, True, 9, FH, 1), (7, True, 7, FA, -1), (-7, False, 7, FH, 1), (-9, False, 9, FA, -1),
    (17, True, 17, FH, 1), (15, True, 15, FA, -1), (-15, False, 15, FH, 1), (-17, False, 17, FA, -1),
    (10, True, 10, FGH, 2), (6, True, 6, FAB, -2), (-6, False, 6, FGH, 2), (-10, False, 10, FAB, -2)]
out = []
for d, left, k, mask, df in dirs:
    name = "lemma_shift_%s%d" % ("p" if d > 0 else "m", abs(d))
    src = "x" if mask == 0 else "(x & !0x%016xu64)" % mask
    rexp = "(%s %s %du64)" % (src, "<<" if left else ">>", k)
    if left:
        pre_bv = "t >= %d && (x & (1u64 << sub(t, %d))) != 0" % (k, k)
        pre_t = "sub(t, %d)" % k
    else:
        pre_bv = "t < %d && (x & (1u64 << add(t, %d))) != 0" % (64 - k, k)
        pre_t = "add(t, %d)" % k
    if df == 0:
        fcond = "(t %% 8) == (%s %% 8)" % pre_t
    elif df > 0:
        fcond = "(t %% 8) == add(%s %% 8, %d)" % (pre_t, df)
    else:
        fcond = "add(t %% 8, %d) == (%s %% 8)" % (-df, pre_t)
    out.append("""pub proof fn %(name)s(x: u64)
    ensures shifted(x, %(d)d, %(rexp)s)
{
    let r = %(rexp)s;
    assert(forall|t: u64| t < 64 ==> ((#[trigger] (%(rexp)s & (1u64 << t))) != 0) == (%(pre_bv)s && %(fcond)s)) by (bit_vector);
    assert forall|t: int| 0 <= t < 64 implies #[trigger] bit(r, t) == (onb(t - (%(d)d)) && bit(x, t - (%(d)d)) && fl(t) - fl(t - (%(d)d)) == %(df)d) by {
        let tu = t as u64;
        assert((r & (1u64 << tu)) != 0 == bit(r, t));
        if onb(t - (%(d)d)) {
            assert(%(pre_t)s == (t - (%(d)d)) as u64);
            assert(bit(x, t - (%(d)d)) == ((x & (1u64 << %(pre_t)s)) != 0));
        }
    }
}
""" % dict(name=name, d=d, rexp=rexp, pre_bv=pre_bv.replace("t)", "t)").replace("(t,", "(t,"), fcond=fcond, pre_t=pre_t.replace("t,", "tu,") if False else pre_t, df=df))
txt = "".join(out)
# inside the `assert forall|t:int|` block the BV variable is tu
import re
def fix(block):
    head, tail = block.split("let tu = t as u64;")
    tail = tail.replace("sub(t,", "sub(tu,").replace("add(t,", "add(tu,")
    return head + "let tu = t as u64;" + tail
txt = "".join(fix(b) for b in out)
print(txt)
