#!/bin/sh
# developer helper: tools/vrun.sh <module> [function] [extra verus args]  -- extract + verus on one module / function
cd "$(dirname "$0")/.." || exit 2
mod=$1; fn=$2; shift; shift
VERIF_LIGHT=1 python3 tools/extract.py build/dev/flounder_v.rs build/dev/report.json || exit 2
args="--verify-only-module $mod"
[ -n "$fn" ] && [ "$fn" != "-" ] && args="$args --verify-function $fn"
verus build/dev/flounder_v.rs --crate-type bin --extern rand=build/librand.rlib --multiple-errors 5 --rlimit ${VRUN_RLIMIT:-20} --triggers-mode silent $args "$@" 2>&1 | grep -v "^warning: unused\|^  *= note: .#\[warn" | head -${VRUN_LINES:-80}
