#!/usr/bin/env python3
"""
Driver:  ./check <ID> [--tier quick|thorough] [--replay FILE]

Re-extracts /repo/src into build/<ID>/flounder_v.rs, runs Verus on the modules of the property's cone, maps the
per-function results to the property's obligations, runs the property's secondary back ends (Kani leaf harnesses,
exhaustive validations, native counterexample search), writes evidence/<ID>.json, prints VIOLATION / KNOWN-FINDING
lines.  Exit 0 = all obligations discharged; 1 = violation(s); 2 = undecided (tool error, lost anchor, timeout).
"""
import json
import os
import re
import shutil
import subprocess
import sys
import time

HERE = os.path.dirname(os.path.abspath(__file__))
VERIF = os.path.dirname(HERE)
sys.path.insert(0, HERE)
import extract as ex  # noqa: E402

REPO = os.environ.get("FLOUNDER_REPO", "/repo")
CRATE = "flounder_v"

SEMANTIC = ("postcondition not satisfied", "precondition not satisfied", "precondition not met",
            "invariant not satisfied", "assertion failed", "bitvector assertion not satisfied",
            "possible arithmetic underflow/overflow", "possible bit shift underflow/overflow",
            "decreases not satisfied", "possible division by zero", "loop invariant not",
            "assertion not satisfied", "unreachable!", "recommendation not met", "failed this postcondition",
            "could not prove termination", "might not be allowed", "index in bounds", "possible truncation",
            "unable to prove post-condition of closure", "unable to prove")
UNDECIDED = ("rlimit exceeded", "resource limit", "not supported", "not yet support", "cannot find", "timed out")


def load_props():
    props = {}
    with open(os.path.join(VERIF, "properties.jsonl")) as fh:
        for line in fh:
            line = line.strip()
            if line:
                d = json.loads(line)
                props[d["id"]] = d
    return props


def load_obligations():
    with open(os.path.join(VERIF, "contracts", "OBLIGATIONS.json")) as fh:
        return json.load(fh)


def load_known_findings():
    findings, fixed = [], []
    p = os.path.join(VERIF, "known_findings.txt")
    if os.path.exists(p):
        for line in open(p):
            line = line.strip()
            if line.startswith("finding:"):
                m = re.match(r"finding:\s*property=(\S+)\s+(\S+)\s*(.*)$", line)
                if m:
                    findings.append({"property": m.group(1), "obligation": m.group(2), "what": m.group(3)})
            elif line.startswith("fixed:"):
                fixed.append(line)
    return findings, fixed


def ensure_shim(build_root):
    lib = os.path.join(build_root, "librand.rlib")
    src = os.path.join(VERIF, "shim", "rand_shim.rs")
    if not os.path.exists(lib) or os.path.getmtime(lib) < os.path.getmtime(src):
        os.makedirs(build_root, exist_ok=True)
        subprocess.run(["rustc", "+1.98.1-x86_64-unknown-linux-gnu", "--edition", "2021", "--crate-type", "rlib",
                        "--crate-name", "rand", "-o", lib, src], check=True)
    return lib


class FnIndex:
    """line ranges of every fn in the generated file -> qualified names, to attribute diagnostics"""

    def __init__(self, path):
        self.src = open(path).read()
        self.entries = []  # (start_line, end_line, module, name, container type, container header)
        masked = ex.mask_source(self.src)
        for m in re.finditer(r"(?m)^pub mod ([a-z_0-9]+) \{$", masked):
            o = masked.find("{", m.start())
            mod = m.group(1)
            vo = masked.find("verus! {", o)
            o = masked.find("{", vo)
            c = ex.match_close(masked, o)
            o += 1
            body = self.src[o:c]
            mbody = masked[o:c]
            base_line = self.src.count("\n", 0, o) + 1
            blocks = []
            for bm in re.finditer(r"(?m)^[ \t]*(?:pub(?:\([a-z]+\))?[ \t]+)?(?:unsafe[ \t]+)?(impl|trait)\b", mbody):
                kw = bm.start(1)
                if mbody.count("{", 0, kw) != mbody.count("}", 0, kw):
                    continue
                bo = mbody.find("{", kw)
                blocks.append((bo, ex.match_close(mbody, bo), " ".join(body[bm.end(1):bo].split())))
            for fm in re.finditer(r"\bfn[ \t]+([A-Za-z_][A-Za-z0-9_]*)", mbody):
                kw = fm.start()
                # body brace: first `{` at bracket depth 0 that is not inside a contract clause, i.e. either no clause
                # keyword has been seen yet, or the brace is the first thing on its line (how contracts are spliced)
                k = fm.end()
                depth = 0
                seen_clause = False
                end = None
                while k < len(mbody):
                    ch = mbody[k]
                    if ch in "([":
                        depth += 1
                    elif ch in ")]":
                        depth -= 1
                    elif depth == 0 and ch == ";" and not seen_clause:
                        end = k
                        break
                    elif depth == 0 and ch == "{":
                        ls = mbody.rfind("\n", 0, k) + 1
                        if not seen_clause or mbody[ls:k].strip() == "":
                            end = ex.match_close(mbody, k)
                            break
                        k = ex.match_close(mbody, k)
                    elif depth == 0 and mbody.startswith(("requires", "ensures", "decreases", "recommends"), k) and not (mbody[k - 1].isalnum() or mbody[k - 1] == "_"):
                        seen_clause = True
                    k += 1
                if end is None:
                    continue
                start = ex.item_start_before(mbody, body, kw)
                cont = None
                header = None
                for bo, bc, hdr in blocks:
                    if bo < kw < bc:
                        header = hdr
                        cont = ex.impl_type_name(hdr)
                sl = base_line + body.count("\n", 0, start)
                el = base_line + body.count("\n", 0, end)
                self.entries.append((sl, el, mod, fm.group(1), cont, header))

    def at_line(self, line):
        best = None
        for e in self.entries:
            if e[0] <= line <= e[1]:
                if best is None or (e[1] - e[0]) < (best[1] - best[0]):
                    best = e
        return best


def verus_fn_key(name):
    """'flounder_v::board::Board::make_move' -> ('board', 'make_move', 'Board'|None|'impl&%3')"""
    parts = name.split("::")
    if parts[0] != CRATE or len(parts) < 3:
        return None
    mod = parts[1]
    fn = parts[-1]
    cont = parts[-2] if len(parts) > 3 else None
    return mod, fn, cont


def run_verus(gen, lib, modules, rlimit, threads, seed=None, extra=None, timeout=3600):
    cmd = ["verus", gen, "--crate-type", "bin", "--extern", "rand=" + lib, "--output-json", "--time-expanded",
           "--multiple-errors", "3", "--rlimit", str(rlimit), "--num-threads", str(threads),
           "--error-format=json", "--no-report-long-running"]
    for m in modules:
        cmd += ["--verify-only-module", m]
    if seed is not None:
        cmd += ["--smt-option", "smt.random_seed=%d" % seed]
    if extra:
        cmd += extra
    t0 = time.time()
    try:
        p = subprocess.run(cmd, stdout=subprocess.PIPE, stderr=subprocess.PIPE, text=True, timeout=timeout,
                           cwd=os.path.dirname(gen))
    except subprocess.TimeoutExpired:
        return cmd, None, [], "verus timed out after %ds" % timeout, time.time() - t0
    wall = time.time() - t0
    diags = []
    for line in p.stderr.splitlines():
        line = line.strip()
        if line.startswith("{"):
            try:
                diags.append(json.loads(line))
            except ValueError:
                pass
    try:
        res = json.loads(p.stdout)
    except ValueError:
        res = None
    return cmd, res, diags, p.stderr if res is None else "", wall


def frontend_error(vr):
    """Verus stopped before verification (rustc / VIR error): nothing was verified and no verification error was counted"""
    return bool(vr.get("encountered-vir-error") or (vr.get("encountered-error") and not vr.get("verified") and not vr.get("errors")))


def diag_primary_line(d):
    for sp in d.get("spans", []):
        if sp.get("is_primary") and sp.get("file_name", "").endswith("flounder_v.rs"):
            return sp["line_start"]
    for sp in d.get("spans", []):
        if sp.get("file_name", "").endswith("flounder_v.rs"):
            return sp["line_start"]
    return None


def diag_lines(d):
    sps = [sp for sp in d.get("spans", []) if sp.get("file_name", "").endswith("flounder_v.rs")]
    sps.sort(key=lambda sp: not sp.get("is_primary"))
    return [sp["line_start"] for sp in sps]


def classify(msg):
    low = msg.lower()
    for u in UNDECIDED:
        if u in low:
            return "undecided"
    for s in SEMANTIC:
        if s in low:
            return "semantic"
    return "other"


def scan_cheats(gen_src):
    """mechanical scan of the generated file for unchecked assumptions"""
    masked = ex.mask_source(gen_src)
    out = {}
    for pat in ("admit(", "assume(", "#[verifier::external_body]", "#[verifier::external]",
                "assume_specification", "exec_allows_no_decreases_clause", "#[verifier::external_type_specification]",
                "#[verifier::external_trait_specification]", "uninterp spec fn", "#[verifier::truncate]",
                "broadcast axiom", "axiom fn"):
        out[pat] = len(re.findall(re.escape(pat), masked))
    return out


def main():
    args = sys.argv[1:]
    if not args:
        print(__doc__)
        sys.exit(2)
    pid = args[0]
    tier = os.environ.get("VERIF_TIER", "quick")
    replay = None
    i = 1
    while i < len(args):
        if args[i] == "--tier":
            tier = args[i + 1]
            i += 2
        elif args[i] == "--replay":
            replay = args[i + 1]
            i += 2
        else:
            i += 1
    if tier not in ("quick", "thorough"):
        tier = "quick"
    seed = int(os.environ.get("VERIF_SEED", "0") or 0)
    if replay:
        import replay as rp
        sys.exit(rp.replay_file(replay))

    t_start = time.time()
    props = load_props()
    obl = load_obligations()
    if pid not in props or pid not in obl["properties"]:
        print("unknown or unclaimed property %s" % pid)
        sys.exit(2)
    spec = obl["properties"][pid]
    build_root = os.path.join(VERIF, "build")
    bdir = os.path.join(build_root, pid)
    if os.path.exists(bdir):
        shutil.rmtree(bdir)
    os.makedirs(bdir)
    os.makedirs(os.path.join(VERIF, "evidence"), exist_ok=True)
    gen = os.path.join(bdir, "flounder_v.rs")
    rep_path = os.path.join(bdir, "extract_report.json")

    def undecided(msg, detail=""):
        print("UNDECIDED property=%s reason=%s" % (pid, msg))
        if detail:
            print(detail[-4000:])
        sys.exit(2)

    checker_cmd_box = [""]

    def fallback(frontend_failed, what):
        # The deductive check cannot be run on the current text (%s). It is undecided. A bounded native stand-in for the
        # property, where one exists, may still find a concrete failing input, which is then a replayed violation.
        standin = None
        try:
            import backends
            standin = backends.bounded_standin(pid, tier, seed, bdir)
        except ImportError:
            pass
        rdir = os.path.join(VERIF, "evidence", "replay")
        os.makedirs(rdir, exist_ok=True)
        ev = {"property_id": pid, "tier": tier, "seed": seed, "level": "other",
              "coverage": {"explanation": "The deductive check could not be run on the current source text (" + what + "), so NO obligation was decided deductively in this run. "
                           "A bounded native stand-in (labelled bounded, never counted as proved) was run instead: %s" % (json.dumps(standin)[:1500] if standin else "none available"),
                           "obligations": 0, "discharged": 0, "checker_cmd": checker_cmd_box[0], "trusted_base": obl.get("trusted_base", []),
                           "frontend_error": frontend_failed[-2000:], "bounded": [standin] if standin else []},
              "assumptions": obl.get("assumptions", []), "wall_s": round(time.time() - t_start, 2),
              "violations": 1 if (standin and standin.get("violation")) else 0}
        with open(os.path.join(VERIF, "evidence", "%s.json" % pid), "w") as fh:
            json.dump(ev, fh, indent=1)
        if standin and standin.get("violation"):
            v = standin["violation"]
            rp = os.path.join(rdir, "%s_bounded_standin.json" % pid)
            with open(rp, "w") as fh:
                json.dump({"property": pid, "obligation": "bounded-standin:" + standin.get("name", "?"), "backend": "native-bounded",
                           "verifier_output": [frontend_failed[-3000:]], "input": v.get("input"), "real": v.get("real"),
                           "expected": v.get("expected"), "reproduced": True, "found_by": standin.get("cmd"), "seed": seed,
                           "note": "the deductive check could not be run on the edited code (" + what + "); violation found and replayed by the bounded stand-in"}, fh, indent=1)
            print("VIOLATION property=%s replay=%s obligation=bounded-standin (deductive check undecided: %s)" % (pid, rp, what))
            sys.exit(1)
        undecided(what + ("; bounded stand-in found no violation: %s" % standin.get("summary") if standin else "; no bounded stand-in for this property"),
                  frontend_failed)

    # 1. extraction from the current working tree
    havoc = []
    # the 256 generated bit-vector lemmas are only spliced in (and only then verified) when the cone contains them
    light_magic = not (tier == "thorough" or "magic" in spec["modules"] or "magic_lemmas" in spec["modules"])

    def do_extract():
        try:
            return ex.extract(gen, rep_path, havoc=tuple(havoc), light_magic=light_magic)
        except ex.ExtractError as e:
            if "anchor-lost" in str(e):
                # a contract or proof hint no longer finds the code it was written for: never an alarm by itself
                fallback("extract: %s" % e, "anchor lost: %s" % e)
            undecided("extract: %s" % e)
    report = do_extract()
    for st in report.get("stale_fields", []):
        if pid in st["props"]:
            fallback("contract-stale: fields of struct %s are %s, the contract (%s) was written for %s" % (st["struct"], st["have"], st["origin"], st["want"]),
                     "contract stale: struct %s has a field list the contract was not written for" % st["struct"])
    lib = ensure_shim(build_root)
    gen_src = open(gen).read()
    cheats = scan_cheats(gen_src)
    declared = obl.get("declared_cheats", {})
    if cheats.get("admit(", 0) or cheats.get("assume(", 0) > declared.get("assume(", 0):
        undecided("undeclared admit()/assume() in generated file: %s" % cheats)

    # 2. which functions are obligations of this property
    fn_props = report["fn_props"]            # "mod::Type::name" -> [props]
    lemma_props = obl.get("lemmas", {})      # "mod::name" -> [props]
    modules = list(spec["modules"])
    own = set()
    for fq, ps in list(fn_props.items()) + list(lemma_props.items()):
        if pid in ps:
            own.add(fq)
    shared = set(spec.get("depends_on_fns", []))
    want = own | shared

    import fnmatch
    patterns = [w for w in want if "*" in w]

    def fq_matches(verus_name):
        k = verus_fn_key(verus_name)
        if k is None:
            return None
        mod, fn, cont = k
        cands = []
        for fq in want:
            if "*" in fq:
                continue
            p = fq.split("::")
            if p[0] != mod or p[-1] != fn:
                continue
            if len(p) == 3 and cont is not None and not cont.startswith("impl&") and p[1] != cont:
                continue
            cands.append(fq)
        if cands:
            return sorted(cands)[0]
        canon = "%s::%s::%s" % (mod, cont, fn) if cont and not cont.startswith("impl&") else "%s::%s" % (mod, fn)
        for pat in patterns:
            if fnmatch.fnmatch(canon, pat) or fnmatch.fnmatch("%s::%s" % (mod, fn), pat):
                return canon
        return None

    iso_rlimit = spec.get("rlimit", 10) * (4 if tier == "thorough" else 1)   # isolated invocations
    threads = int(os.environ.get("VERIF_THREADS", "16"))
    runs = []
    # thorough: the whole crate - every source module, the ghost vocabulary, and the machine-generated lemma modules - under two
    # solver seeds at four times the resource limit, and then the quick configuration as well. One accepted proof of an
    # obligation is a proof whatever another configuration's solver run gave up on, so an obligation counts as failed only if
    # it fails in every configuration that contains it (the others are recorded as unstable).
    whole = report["modules"] + ["model", "stdspec"] + list(report.get("generated_modules", []))
    base_rl = spec.get("rlimit", 10)
    configs = [(modules, base_rl, None)] if tier == "quick" else [(whole, base_rl * 4, None), (whole, base_rl * 4, (seed % 1000) + 1), (modules, base_rl, None)]
    per_fn = {}
    frontend_failed = None
    unsupported_in_contracted = []
    failures = []       # dicts: fn, message, class, rendered
    unstable = []
    total_smt_ms = 0
    checker_cmd = ""
    for ci, (verus_mods, rlimit, sd) in enumerate(configs):
        cmd, res, diags, err, wall = run_verus(gen, lib, verus_mods, rlimit, threads, sd,
                                               timeout=spec.get("timeout_s", 1500) * (3 if tier == "thorough" else 1))
        if ci == 0:
            checker_cmd = " ".join(cmd)
            checker_cmd_box[0] = checker_cmd
        if res is None:
            undecided("verus produced no result", err)
        vr = res.get("verification-results", {})
        tries = 0
        while frontend_error(vr) and tries < 6:
            # A construct Verus cannot ingest. If it sits in a function that carries NO contract (typically new code),
            # hide that body without assuming anything about it and try again: callers then see an arbitrary effect, and
            # a property that depended on it fails at the caller's obligation. A contracted function is never hidden.
            tries += 1
            idx0 = FnIndex(gen)
            contracted = set(report["under_contract"]) | {a["fn"] for a in report["assumed"]}
            added = False
            blocked = []
            for d in diags:
                if d.get("level") != "error" or not any(u in d.get("message", "").lower() for u in ("not supported", "not yet support", "does not support", "unsupported")):
                    continue
                for ln in diag_lines(d):
                    e = idx0.at_line(ln)
                    if e is None:
                        continue
                    cand = "%s::%s::%s" % (e[2], e[4], e[3]) if e[4] else "%s::%s" % (e[2], e[3])
                    key = (e[2], e[3], e[5])
                    if cand in contracted or "%s::%s" % (e[2], e[3]) in contracted:
                        blocked.append(cand)
                    elif key not in havoc:
                        havoc.append(key)
                        added = True
                    break
            if not added:
                msgs = [d.get("rendered", d.get("message", "")) for d in diags if d.get("level") == "error"]
                break
            report = do_extract()
            cmd, res, diags, err, wall = run_verus(gen, lib, verus_mods, rlimit, threads, sd,
                                                   timeout=spec.get("timeout_s", 1500) * (3 if tier == "thorough" else 1))
            if res is None:
                undecided("verus produced no result", err)
            vr = res.get("verification-results", {})
        if frontend_error(vr):
            msgs = [d.get("rendered", d.get("message", "")) for d in diags if d.get("level") == "error"]
            frontend_failed = "\n".join(msgs)
            break
        idx = FnIndex(gen)
        this_run = {}
        for mt in res["times-ms"]["smt"].get("smt-run-module-times", []):
            total_smt_ms += mt.get("time", 0)
            for fb in mt.get("function-breakdown", []):
                fq = fq_matches(fb["function"])
                if fq is None:
                    continue
                ent = this_run.setdefault(fq, {"success": True, "time_ms": 0, "rlimit": 0, "verus_names": []})
                ent["success"] = ent["success"] and bool(fb["success"])
                ent["time_ms"] += fb.get("time", 0)
                ent["rlimit"] += fb.get("rlimit", 0)
                ent["verus_names"].append(fb["function"])
        run_fail = []
        other_prop_fail = {}
        for d in diags:
            if d.get("level") != "error":
                continue
            msg = d.get("message", "")
            if msg.startswith("aborting due to"):
                continue
            cls = classify(msg + " " + " ".join(c.get("message", "") for c in d.get("children", [])))
            cands = []
            for ln in diag_lines(d):
                e = idx.at_line(ln)
                if e is not None:
                    cand = "%s::%s::%s" % (e[2], e[4], e[3]) if e[4] else "%s::%s" % (e[2], e[3])
                    alt = "%s::%s" % (e[2], e[3])
                    if cand in want or any(fnmatch.fnmatch(cand, pt) for pt in patterns):
                        cands.append(cand)
                    elif alt in want or any(fnmatch.fnmatch(alt, pt) for pt in patterns):
                        cands.append(alt)
                    else:
                        cands.append("~" + cand)
            real = [c for c in cands if not c.startswith("~")]
            # a failed precondition has a span in the callee's contract too: the obligation belongs to the function
            # whose query failed (the caller)
            failing = [c for c in real if c in this_run and not this_run[c]["success"]]
            # otherwise the function holding the PRIMARY span (for a failed precondition: the call site, i.e. the caller -
            # which may be a function outside this property's cone; the callee's contract span must not claim it)
            fq = failing[0] if failing else (cands[0] if cands else None)
            # clause-level attribution: a contract clause may carry `// [Cxx,Cyy]`; a failure of a clause tagged for other
            # properties only is not a failure of this property
            tags = set()
            aux_clause = False
            gen_lines = idx.src.splitlines()
            for sp in d.get("spans", []):
                if sp.get("file_name", "").endswith(".rs") and 0 < sp.get("line_start", 0) <= len(gen_lines):
                    for ln in range(sp["line_start"], min(sp.get("line_end", sp["line_start"]), sp["line_start"] + 3) + 1):
                        mt = re.search(r"//\s*\[(C[0-9]+(?:\s*,\s*C[0-9]+)*)\]", gen_lines[ln - 1]) if ln <= len(gen_lines) else None
                        if mt and sp.get("label") is not None or (mt and sp.get("is_primary") and "postcondition" in msg):
                            tags |= {x.strip() for x in mt.group(1).split(",")}
                        # `// [aux]`: a clause that is STRONGER than any property needs (kept because other proofs lean on it): its
                        # failure alone is not a violation of anything - see the verdict below
                        ma = re.search(r"//\s*\[aux\]", gen_lines[ln - 1]) if ln <= len(gen_lines) else None
                        if ma and (sp.get("label") is not None or (sp.get("is_primary") and "postcondition" in msg)):
                            aux_clause = True
            if tags and pid not in tags and fq and not fq.startswith("~"):
                run_fail.append({"fn": "~other-property:" + fq, "message": msg, "class": cls, "rendered": d.get("rendered", ""), "tags": sorted(tags)})
                other_prop_fail.setdefault(fq, 0)
                other_prop_fail[fq] += 1
                continue
            run_fail.append({"fn": fq, "message": msg, "class": cls, "rendered": d.get("rendered", ""), "aux": aux_clause})
        for fq_o, n_o in other_prop_fail.items():
            mine = [f for f in run_fail if f["fn"] == fq_o]
            if not mine and fq_o in this_run and not this_run[fq_o]["success"]:
                this_run[fq_o]["success"] = True
                this_run[fq_o]["note"] = "failed only clauses tagged for other properties"
        runs.append({"seed": sd, "wall_s": round(wall, 2), "results": this_run, "failures": run_fail,
                     "verified": vr.get("verified"), "errors": vr.get("errors")})
    # isolated invocations (see @isolate in the sidecar): the function is verified with its listed callers hidden; in the
    # main invocation it was visible through its contract only. Its result here is THE result for that obligation.
    iso_results = {}
    if frontend_failed is None:
        for iso in report.get("isolated", []):
            if iso["module"] not in spec["modules"] or iso["fn"] not in want:
                continue
            gen_i = os.path.join(bdir, "flounder_v_iso_%s.rs" % re.sub(r"[^A-Za-z0-9]+", "_", iso["fn"]))
            try:
                ex.extract(gen_i, rep_path + ".iso", havoc=tuple(havoc), light_magic=light_magic, variant="iso:" + iso["fn"])
            except ex.ExtractError as e:
                fallback("extract (isolated %s): %s" % (iso["fn"], e), "the isolated invocation of %s could not be extracted" % iso["fn"])
            fn_short = "::".join(iso["fn"].split("::")[1:])
            cmd_i, res_i, diags_i, err_i, wall_i = run_verus(gen_i, lib, [iso["module"]], iso_rlimit, threads, None,
                                                             extra=["--verify-function", fn_short], timeout=spec.get("timeout_s", 1500))
            if res_i is None:
                undecided("verus produced no result (isolated %s)" % iso["fn"], err_i)
            ok = True
            tms = 0
            seen = False
            for mt in res_i.get("times-ms", {}).get("smt", {}).get("smt-run-module-times", []):
                for fb in mt.get("function-breakdown", []):
                    if fb["function"].endswith("::" + fn_short.split("::")[-1]):
                        seen = True
                        ok = ok and bool(fb["success"])
                        tms += fb.get("time", 0)
            vr_i = res_i.get("verification-results", {})
            if vr_i.get("encountered-vir-error") or not seen:
                fallback("\n".join(d.get("rendered", "") for d in diags_i if d.get("level") == "error"), "the isolated run of %s did not reach verification (front-end error or lost hints in that function)" % iso["fn"])
            fails_i = []
            idx_i = FnIndex(gen_i.replace("flounder_v_iso", "flounder_v_iso")) if False else None
            for d in diags_i:
                if d.get("level") == "error" and not d.get("message", "").startswith("aborting"):
                    fails_i.append({"fn": iso["fn"], "message": d.get("message", ""),
                                    "class": classify(d.get("message", "") + " " + " ".join(c.get("message", "") for c in d.get("children", []))),
                                    "rendered": d.get("rendered", "")})
            iso_results[iso["fn"]] = {"success": ok and not fails_i, "time_ms": tms, "rlimit": 0, "verus_names": [iso["fn"] + " (isolated)"],
                                      "failures": fails_i, "cmd": " ".join(cmd_i), "wall_s": round(wall_i, 2)}
            total_smt_ms += tms
    if frontend_failed is not None:
        fallback(frontend_failed, "verus front-end error: unsupported construct in a contracted function, or ghost code no longer type-checks after a representation change")
    # merge runs: an obligation is failed only if it fails in every configuration that contains it
    def failed_set(r):
        fs_ = {fq for fq, e in r["results"].items() if not e["success"]}
        # e.g. a failed by(bit_vector) assertion is a separate query: the breakdown entry of the enclosing function may
        # still say success, the diagnostic decides
        fs_ |= {f["fn"] for f in r["failures"] if f["fn"] and not f["fn"].startswith("~")}
        return fs_
    first = runs[0]
    for r in runs:
        for fq, ent in r["results"].items():
            if fq not in per_fn:
                per_fn[fq] = dict(ent)
    fsets = [failed_set(r) for r in runs]
    some_failed = set().union(*fsets)
    all_failed = set()
    for fq in some_failed:
        containing = [i for i, r in enumerate(runs) if fq in r["results"] or fq in fsets[i]]
        if all(fq in fsets[i] for i in containing):
            all_failed.add(fq)
    unstable = sorted(some_failed - all_failed)
    failures = []
    for fq in sorted(all_failed):
        i0 = next(i for i, fs_ in enumerate(fsets) if fq in fs_)
        failures += [f for f in runs[i0]["failures"] if f["fn"] == fq]
        if fq in per_fn:
            per_fn[fq]["success"] = False
        else:
            per_fn[fq] = {"success": False, "time_ms": 0, "rlimit": 0, "verus_names": []}
    for fq in unstable:
        if fq in per_fn:
            per_fn[fq]["success"] = True
            per_fn[fq]["note"] = "accepted in one configuration, given up in another (unstable query; one accepted proof suffices)"
    for fq, ent in iso_results.items():
        per_fn[fq] = {k: v for k, v in ent.items() if k not in ("failures", "cmd", "wall_s")}
        failures = [f for f in failures if f["fn"] != fq] + ent["failures"]
    foreign = [f for f in first["failures"] if not f["fn"] or f["fn"].startswith("~")]

    missing = sorted(fq for fq in want if "*" not in fq and fq not in per_fn and fq not in spec.get("no_query_ok", []))
    # functions with trivially empty queries do not appear in the breakdown; they are listed, not counted
    obligations = sorted(per_fn)
    discharged = [fq for fq in obligations if per_fn[fq]["success"]]
    failed = [fq for fq in obligations if not per_fn[fq]["success"]]

    # 3. secondary back ends for this property (kani leaves, exhaustive validations, bounded stand-ins)
    secondary = []
    sec_viol = []
    try:
        import backends
        secondary, sec_viol = backends.run_for(pid, tier, seed, bdir, spec)
    except ImportError:
        pass

    # 4. verdict
    known, fixed = load_known_findings()
    violations = []
    undec = []
    for fq in failed:
        msgs = [f for f in failures if f["fn"] == fq]
        classes = {f["class"] for f in msgs}
        if fq in unstable:
            undec.append((fq, "unstable across seeds"))
        elif "semantic" in classes:
            sem = [f for f in msgs if f["class"] == "semantic"]
            if sem and all(f.get("aux") for f in sem):
                # only auxiliary clauses failed: clauses stronger than the property (proof structure other contracts lean on). The
                # code may be perfectly right; it is a violation only with a failing input reproduced on the real code.
                cex = None
                try:
                    import backends
                    cex = backends.counterexample(pid, fq, bdir, seed)
                except ImportError:
                    pass
                if cex and cex.get("reproduced"):
                    violations.append({"obligation": fq, "backend": "verus", "messages": msgs, "input": cex,
                                       "note": "only auxiliary clauses failed; kept because a failing input was reproduced on the real code"})
                else:
                    undec.append((fq, "only auxiliary clause(s) failed - stronger than the property requires, other proofs lean on them - and the native search reproduced no failing input: needs the proofs re-done against the weaker clause, not a violation"))
            else:
                violations.append({"obligation": fq, "backend": "verus", "messages": msgs})
        elif not msgs:
            undec.append((fq, "failed without an attributable diagnostic"))
        else:
            undec.append((fq, "; ".join(sorted({f["message"] for f in msgs}))[:300]))
    # Modularity artefact guard. Verus checks a caller against the callee's CONTRACT; a function that did not exist on the pinned
    # tree has none, so its caller's obligation fails whether or not the new code is right. Such a failure is "needs contract",
    # not a violation: it is reported only if the property's native search reproduces a concrete failing input on the real code,
    # otherwise the obligation is undecided (exit 2).
    baseline_unc = obl.get("baseline_uncontracted", {})
    known_names = {}
    for fq_k in list(report["under_contract"]) + [a["fn"] for a in report["assumed"]]:
        pk = fq_k.split("::")
        known_names.setdefault(pk[0], set()).add(pk[-1])
    new_fns = set()
    for m_, names_ in report.get("all_fns", {}).items():
        for n_ in names_:
            if n_ not in known_names.get(m_, set()) and n_ not in baseline_unc.get(m_, []):
                new_fns.add(n_)
    if new_fns and violations:
        idx_g = FnIndex(gen)
        gen_lines = idx_g.src.splitlines()
        kept = []
        for v in violations:
            p_ = v["obligation"].split("::")
            body = ""
            for (sl, el, mod_, name_, cont_, hdr_) in idx_g.entries:
                if mod_ == p_[0] and name_ == p_[-1] and (len(p_) < 3 or cont_ == p_[1] or cont_ is None or str(cont_).startswith("impl")):
                    body = "\n".join(gen_lines[sl - 1:el])
                    break
            used = sorted(n_ for n_ in new_fns if re.search(r"\b%s\s*\(" % re.escape(n_), body) and n_ != p_[-1])
            if not used:
                kept.append(v)
                continue
            cex = None
            try:
                import backends
                cex = backends.counterexample(pid, v["obligation"], bdir, seed)
            except ImportError:
                pass
            if cex and cex.get("reproduced"):
                v["input"] = cex
                v["note"] = "obligation depends on new function(s) without contract (%s); kept because a failing input was reproduced on the real code" % ", ".join(used)
                kept.append(v)
            else:
                undec.append((v["obligation"], "fails, but calls new function(s) that carry no contract (%s): a modularity artefact cannot be told from a defect; no failing input found by the native search" % ", ".join(used)))
        violations = kept
    for v in sec_viol:
        violations.append(v)
    for srec in secondary:
        if srec.get("counts_as_proof") and srec.get("status") == "undecided":
            undec.append((srec["name"], "secondary back end did not reach a verdict: %s" % srec.get("log", "")[-200:]))
    unattributed = [f for f in foreign if not f["fn"]]
    if unattributed:
        undec.append(("-", "error diagnostics that could not be attributed to a function: %s" % "; ".join(sorted({f["message"] for f in unattributed}))[:300]))
    # contracted functions that no longer exist (their records were dropped by the extractor, nothing assumed): the property is
    # at best undecided by the deductive part; a violation found in what remains is still a violation
    orphans = [o_ for o_ in report.get("orphaned_records", []) if o_["kind"] in ("fn", "assumed") and (pid in o_["props"] or any(w_.endswith("::" + o_["fn"]) or w_.endswith("::" + o_["fn"].split("::")[-1]) for w_ in want))]
    for o_ in orphans:
        undec.append(("%s::%s" % (o_["module"], o_["fn"]), "the contracted function no longer exists (its contract %s has nothing to be checked against)" % o_["origin"]))
    if orphans and not violations:
        fallback("orphaned contracts: " + ", ".join("%s::%s" % (o_["module"], o_["fn"]) for o_ in orphans),
                 "contracted function(s) removed: " + ", ".join("%s::%s" % (o_["module"], o_["fn"]) for o_ in orphans) + "; the remaining obligations of the cone were discharged")
    expected_n = spec.get("expected_obligations")
    vac = []
    if not obligations:
        undec.append(("-", "zero obligations generated for this property (vacuous run)"))
    if expected_n is not None and len(obligations) < expected_n:
        undec.append(("-", "obligation count %d below the recorded %d (lost contracts?) missing=%s" % (
            len(obligations), expected_n, missing[:10])))

    # replay files + lines
    out_lines = []
    n_viol = 0
    rdir = os.path.join(VERIF, "evidence", "replay")
    os.makedirs(rdir, exist_ok=True)
    for v in violations:
        kf = [k for k in known if k["property"] == pid and k["obligation"] == v["obligation"]]
        if kf:
            out_lines.append("KNOWN-FINDING: property=%s %s %s" % (pid, v["obligation"], kf[0]["what"]))
            continue
        n_viol += 1
        rp = os.path.join(rdir, "%s_%s.json" % (pid, re.sub(r"[^A-Za-z0-9_]+", "_", v["obligation"])))
        cex = v.get("input")
        if cex is None:
            try:
                import backends
                cex = backends.counterexample(pid, v["obligation"], bdir, seed)
            except ImportError:
                cex = None
        rec = {"property": pid, "obligation": v["obligation"], "backend": v.get("backend"),
               "verifier_output": [m.get("rendered", m.get("message", "")) for m in v.get("messages", [])],
               "input": cex.get("input") if cex else None,
               "real": cex.get("real") if cex else None, "expected": cex.get("expected") if cex else None,
               "reproduced": bool(cex and cex.get("reproduced")),
               "found_by": cex.get("found_by") if cex else None, "bound": cex.get("bound") if cex else None, "seed": seed,
               "how_to_replay": "./check %s --replay %s" % (pid, rp)}
        with open(rp, "w") as fh:
            json.dump(rec, fh, indent=1)
        tail = "" if rec["reproduced"] else " no-failing-input-found"
        out_lines.append("VIOLATION property=%s replay=%s obligation=%s%s" % (pid, rp, v["obligation"], tail))

    wall = time.time() - t_start
    assumed_in_cone = [a for a in report["assumed"] if a["fn"].split("::")[0] in modules]
    samples = [{"obligation": fq, "backend": "verus", "smt_ms": per_fn[fq]["time_ms"], "rlimit": per_fn[fq]["rlimit"],
                "discharged": per_fn[fq]["success"]} for fq in obligations[:12]]
    sec_obl = sum(s.get("obligations", 0) for s in secondary if s.get("counts_as_proof"))
    sec_dis = sum(s.get("discharged", 0) for s in secondary if s.get("counts_as_proof"))
    evidence = {
        "property_id": pid, "tier": tier, "seed": seed, "level": "proof",
        "coverage": {
            "obligations": len(obligations) + sec_obl,
            "discharged": len(discharged) + sec_dis,
            "checker_cmd": checker_cmd,
            "trusted_base": obl.get("trusted_base", []) + spec.get("trusted_base", []),
            "functions_under_contract": sorted(own),
            "shared_obligations": sorted(shared & set(obligations)),
            "per_backend": {"verus": len(obligations),
                            **{s["name"]: s.get("obligations", 0) for s in secondary}},
            "solver_time_s": round(total_smt_ms / 1000.0, 2),
            "rlimit": configs[0][1],
            "verus_runs": [{"seed": r["seed"], "wall_s": r["wall_s"], "verified_items": r["verified"],
                            "errors_in_modules": r["errors"]} for r in runs],
            "failed_obligations": failed,
            "isolated_invocations": [{"fn": k, "cmd": v["cmd"], "wall_s": v["wall_s"], "discharged": v["success"]} for k, v in iso_results.items()],
            "undecided": [list(u) for u in undec],
            "unstable": unstable,
            "contracts_without_smt_query": missing,
            "other_failures_in_cone_modules_not_in_this_property": sorted({f["fn"] or "?" for f in foreign})[:40],
            "assumed_contracts": [{"fn": a["fn"], "contract": a["contract"][:400]} for a in assumed_in_cone],
            "secondary": secondary,
            "bounded": [s for s in secondary if s.get("bounded")],
            "normalisations": report["normalisations"],
            "external_items": report["external"],
            "assumption_scan": cheats,
            "sources_sha256": report["sources"],
            "contracts_sha256": report["contracts"],
            "samples": samples,
            "open_obligations": spec.get("open_obligations", []),
            "explanation": spec.get("explanation", ""),
        },
        "assumptions": obl.get("assumptions", []) + spec.get("assumptions", []),
        "wall_s": round(wall, 2),
        "violations": n_viol,
    }
    with open(os.path.join(VERIF, "evidence", "%s.json" % pid), "w") as fh:
        json.dump(evidence, fh, indent=1)
    for line in out_lines:
        print(line)
    print("property=%s tier=%s obligations=%d discharged=%d failed=%d undecided=%d secondary=%s wall=%.1fs" % (
        pid, tier, evidence["coverage"]["obligations"], evidence["coverage"]["discharged"], len(failed), len(undec),
        [(s["name"], s.get("status")) for s in secondary], wall))
    if n_viol:
        sys.exit(1)
    if undec:
        for u in undec:
            print("UNDECIDED property=%s obligation=%s reason=%s" % (pid, u[0], u[1]))
        sys.exit(2)
    sys.exit(0)


if __name__ == "__main__":
    main()
