#!/usr/bin/env python3
"""
Mechanical extractor + contract splicer.

Reads /repo/src/*.rs (the current working tree) and produces ONE Verus crate file in which every source
file appears verbatim inside `pub mod <m> { use vstd::prelude::*; verus!{ ... } }`, with the ghost text
of /verif/contracts/*.vspec spliced in at anchors.  Executable text is never edited except by the fixed
normalisation rules N1..N12 below; every application of a rule is logged into the extraction report.

Sidecar syntax (contracts/<module>.vspec); every record is
    @<kind> <args...>
    <body lines>
    @end
kinds
    @fn <fn-path> [ret=<name>] [props=C01,C02]          clauses spliced between signature and `{` / `;`
    @assumed <fn-path> [ret=<name>] [props=..]         same, plus #[verifier::external_body]  (trusted)
    @external <fn-path>                                 #[verifier::external]  (not visible to Verus at all)
    @external_impl <substring of impl header>           #[verifier::external] on an impl block
    @attr <fn-path>                                     body = attribute lines put in front of the fn
    @loop <fn-path> <ordinal> [iter=<ghost name>]       body spliced between loop header and `{`
    @before <fn-path> [occ=<n>]                         first body line `>>> <literal statement prefix>`;
    @after  <fn-path> [occ=<n>]                         rest is ghost text spliced before/after that statement
    @closure <fn-path> <ordinal> params=.. ret=..       N4: typed closure with contract (body = clauses)
    @impl <substring of impl header>                    ghost items spliced at the start of that impl block
    @trait <trait name>                                 ghost items spliced at the start of that trait block
    @module                                             ghost items appended to the module
    @uses                                               `use` lines put at the top of the module
    @fields <Struct>                                    body = the struct's field names; any difference => contract-stale (exit 2)
    @println <fn-path>                                  (superseded by @stdout; still accepted) N6 with a local ghost log
    @dropprint <fn-path>                                N6c: println!/print! statements of that fn are dropped (its output is not tracked)
    @atexit <fn-path>                                   body = ghost text placed where the fn is left (end of body and every `return`)
    @stdout <Type>                                      N6/N8: stdout and stdin as linear ghost resources threaded through the methods of
                                                        <Type> that print or read (computed from the call graph on every run)
fn-path:  name | Type::name | Trait::name  with optional impl="<substring of impl header>" to disambiguate.
"""
import hashlib
import json
import os
import re
import sys

REPO = os.environ.get("FLOUNDER_REPO", "/repo")
VERIF = os.path.dirname(os.path.dirname(os.path.abspath(__file__)))

MODULE_ORDER = ["bitboard", "square", "moves", "pieces", "board", "fen", "transposition", "repetition",
                "killer_moves", "history", "timer", "eval", "zobrist", "magic", "lookup", "move_gen",
                "search", "uci", "util"]


class ExtractError(Exception):
    pass


# ------------------------------------------------------------------------------------------------
# lexing: a "mask" of the source in which comments, string and char literals are blanked, so that
# brace matching and pattern searches never look inside them.  Offsets are identical to the original.
# ------------------------------------------------------------------------------------------------
def mask_source(s: str) -> str:
    out = list(s)
    i, n = 0, len(s)

    def blank(a, b):
        for k in range(a, b):
            if out[k] != "\n":
                out[k] = " "

    while i < n:
        c = s[i]
        if s.startswith("//", i):
            j = s.find("\n", i)
            j = n if j < 0 else j
            blank(i, j)
            i = j
        elif s.startswith("/*", i):
            depth, j = 1, i + 2
            while j < n and depth:
                if s.startswith("/*", j):
                    depth += 1
                    j += 2
                elif s.startswith("*/", j):
                    depth -= 1
                    j += 2
                else:
                    j += 1
            blank(i, j)
            i = j
        elif c == '"' or (c == "r" and re.match(r'r#*"', s[i:i + 8]) and (i == 0 or not (s[i - 1].isalnum() or s[i - 1] == "_"))):
            if c == "r":
                m = re.match(r'r(#*)"', s[i:])
                hashes = m.group(1)
                start = i + len(m.group(0))
                j = s.find('"' + hashes, start)
                j = n if j < 0 else j + 1 + len(hashes)
                blank(i + len(m.group(0)), j - 1 - len(hashes))
                i = j
            else:
                j = i + 1
                while j < n and s[j] != '"':
                    j += 2 if s[j] == "\\" else 1
                blank(i + 1, j)
                i = j + 1
        elif c == "'":
            # char literal or lifetime
            m = re.match(r"'(\\.[^']*|[^'\\])'", s[i:])
            if m:
                blank(i + 1, i + len(m.group(0)) - 1)
                i += len(m.group(0))
            else:
                i += 1
        else:
            i += 1
    return "".join(out)


def match_close(masked: str, open_idx: int) -> int:
    """index of the bracket closing the one at open_idx"""
    pairs = {"{": "}", "(": ")", "[": "]"}
    o = masked[open_idx]
    c = pairs[o]
    depth = 0
    for k in range(open_idx, len(masked)):
        ch = masked[k]
        if ch == o:
            depth += 1
        elif ch == c:
            depth -= 1
            if depth == 0:
                return k
    raise ExtractError("unbalanced bracket at %d" % open_idx)


class Fn:
    def __init__(self):
        self.name = None
        self.container = None      # impl header / trait name / None
        self.container_kind = None  # 'impl' | 'trait' | None
        self.item_start = None     # start of attributes / visibility
        self.fn_kw = None          # offset of `fn`
        self.sig_end = None        # offset of body `{` or of `;`
        self.body_end = None       # offset of matching `}` (== sig_end when `;`)
        self.has_body = True


class Block:
    def __init__(self, kind, header, start, open_idx, close_idx):
        self.kind, self.header, self.start, self.open_idx, self.close_idx = kind, header, start, open_idx, close_idx


def item_start_before(masked: str, src: str, kw_idx: int) -> int:
    """walk back from a keyword over visibility / qualifiers / attributes / doc comments to the item start"""
    # go to the start of the line holding the keyword
    line_start = src.rfind("\n", 0, kw_idx) + 1
    pos = line_start
    # include preceding attribute and doc-comment lines
    while True:
        prev_end = pos - 1
        if prev_end <= 0:
            break
        prev_start = src.rfind("\n", 0, prev_end) + 1
        line = src[prev_start:prev_end].strip()
        if line.startswith("#[") or line.startswith("///"):
            pos = prev_start
        else:
            break
    return pos


def scan_module(src: str):
    masked = mask_source(src)
    blocks, fns = [], []
    # impl / trait blocks at depth 0
    for m in re.finditer(r"(?m)^[ \t]*(?:pub(?:\([a-z]+\))?[ \t]+)?(?:unsafe[ \t]+)?(impl|trait)\b", masked):
        kw = m.start(1)
        # depth must be zero
        if masked.count("{", 0, kw) != masked.count("}", 0, kw):
            continue
        o = masked.find("{", kw)
        header = " ".join(src[m.end(1):o].split())
        blocks.append(Block(m.group(1), header, item_start_before(masked, src, kw), o, match_close(masked, o)))
    for m in re.finditer(r"\bfn[ \t]+([A-Za-z_][A-Za-z0-9_]*)", masked):
        kw = m.start()
        f = Fn()
        f.name = m.group(1)
        f.fn_kw = kw
        # signature ends at first `{` or `;` at bracket depth 0 after the parameter list
        k = m.end()
        depth = 0
        while k < len(masked):
            ch = masked[k]
            if ch in "([":
                depth += 1
            elif ch in ")]":
                depth -= 1
            elif depth == 0 and ch in "{;":
                break
            k += 1
        f.sig_end = k
        if masked[k] == "{":
            f.body_end = match_close(masked, k)
        else:
            f.body_end = k
            f.has_body = False
        f.item_start = item_start_before(masked, src, kw)
        for b in blocks:
            if b.open_idx < kw < b.close_idx:
                f.container, f.container_kind = b.header, b.kind
        # nested fn (closure-like fn inside a fn body) – record enclosing fn
        fns.append(f)
    # drop fns nested inside other fns' bodies from anchor resolution (none in this code base, but be safe)
    top = []
    for f in fns:
        if not any(g is not f and g.has_body and g.sig_end < f.fn_kw < g.body_end for g in fns):
            top.append(f)
    return masked, blocks, top


def impl_type_name(header: str) -> str:
    """`Foo`, `Trait for Foo`, `<T> Trait<T> for Foo<T>` -> Foo"""
    h = header
    if " for " in h:
        h = h.split(" for ", 1)[1]
    h = h.strip()
    m = re.match(r"[A-Za-z_][A-Za-z0-9_:]*", h)
    return m.group(0).split("::")[-1] if m else h


def resolve_fn(fns, path: str, impl_sub=None):
    parts = path.split("::")
    name = parts[-1]
    owner = parts[-2] if len(parts) > 1 else None
    cands = [f for f in fns if f.name == name]
    if owner is not None:
        cands = [f for f in cands if f.container is not None and
                 (impl_type_name(f.container) == owner or f.container.split("<")[0].split(":")[0].strip() == owner
                  or f.container == owner)]
    if impl_sub is not None:
        cands = [f for f in cands if f.container is not None and impl_sub in f.container]
    if owner is None and impl_sub is None and len(cands) > 1:
        free = [f for f in cands if f.container is None]
        if len(free) == 1:
            cands = free
    if len(cands) != 1:
        e = ExtractError("anchor-lost fn %s (impl=%s): %d candidates" % (path, impl_sub, len(cands)))
        e.fn_gone = (len(cands) == 0)
        raise e
    return cands[0]


# ------------------------------------------------------------------------------------------------
# sidecar parsing
# ------------------------------------------------------------------------------------------------
class Rec:
    def __init__(self, kind, args, opts, body, origin):
        self.kind, self.args, self.opts, self.body, self.origin = kind, args, opts, body, origin


def parse_vspec(path: str):
    recs = []
    cur = None
    with open(path) as fh:
        for ln, line in enumerate(fh, 1):
            if cur is None:
                st = line.strip()
                if not st or st.startswith("//"):
                    continue
                if not st.startswith("@"):
                    raise ExtractError("%s:%d: text outside a record" % (path, ln))
                toks = re.findall(r'(?:[^\s"]+="[^"]*"|[^\s]+)', st)
                kind = toks[0][1:]
                args, opts = [], {}
                for t in toks[1:]:
                    m = re.match(r'^([a-z_]+)=(.*)$', t)
                    if m and not t.startswith("<"):
                        v = m.group(2)
                        if v.startswith('"') and v.endswith('"'):
                            v = v[1:-1]
                        opts[m.group(1)] = v
                    else:
                        args.append(t)
                cur = Rec(kind, args, opts, [], "%s:%d" % (os.path.basename(path), ln))
                if kind in ("external", "external_impl") or (kind == "isolate" and False):
                    recs.append(cur)
                    cur = None
            else:
                if line.strip() == "@end":
                    recs.append(cur)
                    cur = None
                else:
                    cur.body.append(line.rstrip("\n"))
    if cur is not None:
        raise ExtractError("%s: record %s not closed" % (path, cur.origin))
    return recs


# ------------------------------------------------------------------------------------------------
# normalisations (fixed rules, applied by pattern; each application is logged)
# ------------------------------------------------------------------------------------------------
def normalise(mod: str, src: str, log: list) -> str:
    masked = mask_source(src)
    edits = []

    def lineno(off):
        return src.count("\n", 0, off) + 1

    # N1  static NAME: T = V;  ->  exec static NAME: T ensures NAME@ == V@ { V }   (handled as const: see below)
    for m in re.finditer(r"(?m)^static[ \t]+([A-Z_0-9]+)[ \t]*:[ \t]*([^=]+?)[ \t]*=", masked):
        end = masked.find(";", m.end())
        # brackets may contain ';' ([usize; 64]) only in the type, which is before '='; value is an array literal
        val_start = m.end()
        # find the terminating ';' at bracket depth 0
        depth, k = 0, val_start
        while k < len(masked):
            ch = masked[k]
            if ch in "([{":
                depth += 1
            elif ch in ")]}":
                depth -= 1
            elif ch == ";" and depth == 0:
                break
            k += 1
        end = k
        name, ty = m.group(1), src[m.start(2):m.end(2)]
        val = src[val_start:end]
        edits.append((m.start(), end + 1,
                      "exec static %s: %s ensures %s@ == spec_%s() { %s }\n"
                      "pub open spec fn spec_%s() -> Seq<%s> { seq!%s }" % (
                          name, ty, name, name.lower(), val.strip(), name.lower(), elem_type(ty), val.strip())))
        log.append({"rule": "N1", "file": "src/%s.rs" % mod, "line": lineno(m.start()),
                    "what": "static %s -> exec static with ensures (value text unchanged)" % name})
    # N2  for &x in E {   ->  for x__r in E { let x = *x__r;
    for m in re.finditer(r"\bfor[ \t]+&([a-z_][a-z0-9_]*)[ \t]+in\b", masked):
        o = masked.find("{", m.end())
        edits.append((m.start(), m.end(), "for %s__r in" % m.group(1)))
        edits.append((o + 1, o + 1, " let %s = *%s__r;" % (m.group(1), m.group(1))))
        log.append({"rule": "N2", "file": "src/%s.rs" % mod, "line": lineno(m.start()),
                    "what": "`for &%s in` -> `for %s__r in .. { let %s = *%s__r;`" % ((m.group(1),) * 4)})
    # N3  closure parameter patterns  |_| -> |_u|
    for m in re.finditer(r"\|_\|", masked):
        edits.append((m.start(), m.end(), "|_u|"))
        log.append({"rule": "N3", "file": "src/%s.rs" % mod, "line": lineno(m.start()), "what": "`|_|` -> `|_u|`"})
    # N3b closure parameter pattern  |&x| EXPR  ->  |x__r| { let x = *x__r; EXPR }   (expression-bodied closures only)
    for m in re.finditer(r"\|&([a-z_][a-z0-9_]*)\|", masked):
        b = m.end()
        while masked[b].isspace():
            b += 1
        if masked[b] == "{":
            continue
        depth, e = 0, b
        while e < len(masked):
            ch = masked[e]
            if ch in "([{":
                depth += 1
            elif ch in ")]}":
                if depth == 0:
                    break
                depth -= 1
            elif ch in ",;" and depth == 0:
                break
            e += 1
        x = m.group(1)
        edits.append((m.start(), m.end(), "|%s__r|" % x))
        edits.append((b, b, "{ let %s = *%s__r; " % (x, x)))
        edits.append((e, e, " }"))
        log.append({"rule": "N3", "file": "src/%s.rs" % mod, "line": lineno(m.start()),
                    "what": "`|&%s| e` -> `|%s__r| { let %s = *%s__r; e }`" % (x, x, x, x)})
    # N5  [if] let PAT = RECV.iter().find|position(CLOSURE)  ->  let mut NAME__it = RECV.iter(); [if] let PAT = NAME__it.find|position(CLOSURE)
    #     (the receiver temporary gets a name, so that ghost code can speak about the iterator the search runs over;
    #      slice::Iter has no Drop, evaluation order is unchanged)
    for m in re.finditer(r"\b(if[ \t]+)?let[ \t]+((?:Some\()?([a-z_][a-z0-9_]*)\)?)[ \t]*=[ \t]*([A-Za-z_][A-Za-z0-9_\.]*)\.iter\(\)\.(find|position)\(", masked):
        iff, pat, name, recv, meth = m.group(1) or "", m.group(2), m.group(3), m.group(4), m.group(5)
        edits.append((m.start(), m.end(), "let mut %s__it = %s.iter(); %slet %s = %s__it.%s(" % (name, recv, iff, pat, name, meth)))
        log.append({"rule": "N5", "file": "src/%s.rs" % mod, "line": lineno(m.start()),
                    "what": "`%slet %s = %s.iter().%s(..)` -> `let mut %s__it = %s.iter(); %slet %s = %s__it.%s(..)`" % (iff, pat, recv, meth, name, recv, iff, pat, name, meth)})
    # N7  X.split_whitespace().collect()  ->  crate::stdspec::split_ws(X)   (an external_body function whose body is that expression)
    for m in re.finditer(r"\b([a-z_][a-z0-9_]*)\.split_whitespace\(\)\.collect\(\)", masked):
        edits.append((m.start(), m.end(), "crate::stdspec::split_ws(%s)" % m.group(1)))
        log.append({"rule": "N7", "file": "src/%s.rs" % mod, "line": lineno(m.start()),
                    "what": "`%s.split_whitespace().collect()` -> `crate::stdspec::split_ws(%s)` (assumed: returns the uninterpreted token sequence ws_tokens)" % (m.group(1), m.group(1))})
    # N9  X.split('C').collect()  ->  crate::stdspec::split_on(X, 'C')   (an external_body function whose body is that expression;
    #     its contract says the pieces are split_spec(X@, 'C'), a recursive definition of splitting at every occurrence)
    for m in re.finditer(r"\b([a-z_][a-z0-9_]*)\.split\(('(?:[^'\\]|\\.)')\)\.collect\(\)", src):
        if masked[m.start():m.start() + len(m.group(1))] != m.group(1):
            continue
        edits.append((m.start(), m.end(), "crate::stdspec::split_on(%s, %s)" % (m.group(1), m.group(2))))
        log.append({"rule": "N9", "file": "src/%s.rs" % mod, "line": lineno(m.start()),
                    "what": "`%s.split(%s).collect()` -> `crate::stdspec::split_on(%s, %s)` (assumed: the pieces are split_spec of the text)" % (m.group(1), m.group(2), m.group(1), m.group(2))})
    # N10 for (I, X) in E.iter().enumerate() {  ->  let mut I__n: usize = 0; for X in E.iter() { let I = I__n; I__n += 1;
    #     (Enumerate has no specification in vstd; the counter is what enumerate() keeps)
    for m in re.finditer(r"\bfor[ \t]+\(([a-z_][a-z0-9_]*),[ \t]*([a-z_][a-z0-9_]*)\)[ \t]+in[ \t]+([A-Za-z_][A-Za-z0-9_\.]*)\.iter\(\)\.enumerate\(\)[ \t]*\{", masked):
        i_, x_, e_ = m.group(1), m.group(2), m.group(3)
        edits.append((m.start(), m.end(), "let mut %s__n: usize = 0; for %s in %s.iter() { let %s = %s__n; %s__n += 1;" % (i_, x_, e_, i_, i_, i_)))
        log.append({"rule": "N10", "file": "src/%s.rs" % mod, "line": lineno(m.start()),
                    "what": "`for (%s, %s) in %s.iter().enumerate() {` -> `let mut %s__n: usize = 0; for %s in %s.iter() { let %s = %s__n; %s__n += 1;`" % (i_, x_, e_, i_, x_, e_, i_, i_, i_)})
    # N11 &X[A..B] with literal bounds (string slicing by byte range)  ->  crate::stdspec::str_slice(X, A, B)   (external_body, body = that
    #     expression; contract: for an all-ASCII prefix the byte range is the character range)
    for m in re.finditer(r"&([a-z_][a-z0-9_]*)\[([0-9]+)\.\.([0-9]+)\]", masked):
        edits.append((m.start(), m.end(), "crate::stdspec::str_slice(%s, %s, %s)" % (m.group(1), m.group(2), m.group(3))))
        log.append({"rule": "N11", "file": "src/%s.rs" % mod, "line": lineno(m.start()),
                    "what": "`&%s[%s..%s]` -> `crate::stdspec::str_slice(%s, %s, %s)` (assumed: byte range == character range on an ASCII prefix)" % (m.group(1), m.group(2), m.group(3), m.group(1), m.group(2), m.group(3))})
    # N12 LHS /= K;  ->  LHS = LHS / K;   (compound division assignment on signed integers is outside the subset; same value, and the
    #     left-hand side - field and index expressions without side effects - is evaluated twice instead of once)
    for m in re.finditer(r"(?m)^([ \t]*)((?:self\.)?[a-z_][a-z0-9_\.]*(?:\[[a-z_][a-z0-9_]*\])*)[ \t]*/=[ \t]*([0-9]+);", masked):
        edits.append((m.start(2), m.end(), "%s = %s / %s;" % (m.group(2), m.group(2), m.group(3))))
        log.append({"rule": "N12", "file": "src/%s.rs" % mod, "line": lineno(m.start()),
                    "what": "`%s /= %s;` -> `%s = %s / %s;`" % (m.group(2), m.group(3), m.group(2), m.group(2), m.group(3))})
    # D4 Debug derive on non-Copy structs
    for m in re.finditer(r"#\[derive\(Debug, Clone\)\]", masked):
        edits.append((m.start(), m.end(), "#[derive(Clone)]"))
        log.append({"rule": "D4", "file": "src/%s.rs" % mod, "line": lineno(m.start()),
                    "what": "dropped Debug from #[derive(Debug, Clone)]"})
    return apply_edits(src, edits)


def elem_type(ty: str) -> str:
    m = re.match(r"\[\s*([A-Za-z0-9_]+)\s*;", ty.strip())
    return m.group(1) if m else ty


def apply_edits(src: str, edits):
    edits = sorted(edits, key=lambda e: (e[0], e[1]))
    for a, b in zip(edits, edits[1:]):
        if a[1] > b[0]:
            raise ExtractError("overlapping edits at %d..%d / %d..%d" % (a[0], a[1], b[0], b[1]))
    out, pos = [], 0
    for s, e, t in edits:
        out.append(src[pos:s])
        out.append(t)
        pos = e
    out.append(src[pos:])
    return "".join(out)


def cut_tests_and_hooks(mod: str, src: str, log: list) -> str:
    masked = mask_source(src)
    edits = []
    for m in re.finditer(r"#\[cfg\((test|flounder_verif)\)\]", masked):
        if any(s <= m.start() < e for s, e, _ in edits):
            continue
        # the item that follows: up to matching brace of first '{' or to ';' whichever first at depth 0
        k = m.end()
        while k < len(masked) and masked[k] not in "{;":
            k += 1
        end = match_close(masked, k) + 1 if masked[k] == "{" else k + 1
        edits.append((m.start(), end, ""))
        log.append({"rule": "D1" if m.group(1) == "test" else "D2", "file": "src/%s.rs" % mod,
                    "line": src.count("\n", 0, m.start()) + 1,
                    "what": "dropped #[cfg(%s)] item (%d lines)" % (m.group(1), src.count("\n", m.start(), end) + 1)})
    return apply_edits(src, edits)


# ------------------------------------------------------------------------------------------------
# splicing
# ------------------------------------------------------------------------------------------------
def loops_in(masked: str, f: Fn):
    """offsets of loop keywords (for / while / loop) in source order inside fn body, with their `{`"""
    res = []
    for m in re.finditer(r"\b(for|while|loop)\b", masked[f.sig_end:f.body_end]):
        kw = f.sig_end + m.start()
        # `for` inside `impl X for Y` cannot occur inside a body; `for<'a>` HRTB not used here
        # the body `{` is the first `{` at paren/bracket depth 0 after the keyword that is not part of a
        # struct literal; in this code base loop headers contain no braces.
        depth, k = 0, kw
        while k < f.body_end:
            ch = masked[k]
            if ch in "([":
                depth += 1
            elif ch in ")]":
                depth -= 1
            elif ch == "{" and depth == 0:
                break
            k += 1
        res.append((kw, k, m.group(1)))
    return res


def closures_in(masked: str, f: Fn):
    """closures `|params| body` inside a fn body, in source order: (bar1, bar2, body_start, body_end)"""
    res = []
    seg_start = f.sig_end
    k = seg_start
    while k < f.body_end:
        if masked[k] == "|" and masked[k + 1] != "|" and masked[k - 1] != "|" and masked[k+1] != "=":
            # closure start if the previous non-space char is one of ( , = { ; or keyword move
            p = k - 1
            while p > seg_start and masked[p].isspace():
                p -= 1
            if masked[p] in "(,={;":
                bar2 = masked.find("|", k + 1)
                b = bar2 + 1
                while masked[b].isspace():
                    b += 1
                if masked[b] == "{":
                    be = match_close(masked, b) + 1
                else:
                    # expression body: up to the `)` or `,` closing the call at depth 0
                    depth, e = 0, b
                    while e < f.body_end:
                        ch = masked[e]
                        if ch in "([{":
                            depth += 1
                        elif ch in ")]}":
                            if depth == 0:
                                break
                            depth -= 1
                        elif ch == "," and depth == 0:
                            break
                        e += 1
                    be = e
                res.append((k, bar2, b, be))
                k = bar2 + 1
                continue
        k += 1
    return res


def statement_bounds(masked: str, f: Fn, needle_idx: int):
    """start and end (after `;` or closing `}` of a block statement) of the statement containing needle_idx"""
    # start: after previous `;`, `{` or `}` at the same depth
    k = needle_idx - 1
    depth = 0
    while k > f.sig_end:
        ch = masked[k]
        if ch == "}" and depth == 0:
            # a block statement ends here, unless our statement continues it (`else`, method chain)
            j = k + 1
            while masked[j].isspace():
                j += 1
            if not (masked.startswith("else", j) or masked[j] in ".?"):
                break
            depth += 1
        elif ch in ")]}":
            depth += 1
        elif ch in "([{":
            if depth == 0:
                break
            depth -= 1
        elif ch == ";" and depth == 0:
            break
        k -= 1
    start = k + 1
    # end
    k = needle_idx
    depth = 0
    while k < f.body_end:
        ch = masked[k]
        if ch in "([{":
            depth += 1
        elif ch in ")]}":
            if depth == 0:
                break
            depth -= 1
            if depth == 0 and ch == "}":
                # block statement (if/match/for) ends here unless followed by else / ; / method call
                j = k + 1
                while masked[j].isspace():
                    j += 1
                if masked.startswith("else", j) or masked[j] in ".;?":
                    k += 1
                    continue
                return start, k + 1
        elif ch == ";" and depth == 0:
            return start, k + 1
        k += 1
    return start, k


def splice_module(mod: str, src: str, recs, report, havoc=(), variant="main"):
    masked, blocks, fns = scan_module(src)
    report.setdefault("all_fns", {})[mod] = sorted({f.name for f in fns})
    edits = []
    uses = []
    fn_attrs = {}
    module_items = []
    anchors = report["anchors"]

    def fn_of(rec):
        f = resolve_fn(fns, rec.args[0], rec.opts.get("impl"))
        return f

    def add_attr(f, text):
        fn_attrs.setdefault(f.item_start, []).append(text)

    # pre-pass: ORPHANED records. A contract (and its proof hints) for a function that no longer exists has nothing to be spliced
    # into; dropping it assumes nothing - whoever called that function now calls something else, and is verified against that.
    # The run goes on, so that the remaining obligations (typically the caller's) are still decided; the evidence lists the
    # orphaned records, and the driver counts a property whose OWN top-level function vanished as undecided.
    fn_kinds = ("fn", "assumed", "external", "attr", "loop", "before", "after", "println", "closure", "isolate", "atexit", "dropprint")
    kept_recs = []
    for r0 in recs:
        if r0.kind in fn_kinds and r0.args:
            try:
                resolve_fn(fns, r0.args[0], r0.opts.get("impl"))
            except ExtractError as e0:
                if getattr(e0, "fn_gone", False):
                    report.setdefault("orphaned_records", []).append({"module": mod, "kind": r0.kind, "fn": r0.args[0], "origin": r0.origin,
                                                                      "props": [x for x in r0.opts.get("props", "").split(",") if x]})
                    continue
                raise
        kept_recs.append(r0)
    recs = kept_recs
    # pre-pass for @stdout: a printing method of the tracked type whose contract says nothing about the output resource gets the
    # DEFAULT output clause - it only appends, and none of the lines it writes is one a GUI waits for (uciok / readyok / bestmove) -
    # together with the shape-independent exit hint that proves it. (So adding an `info string` line to, say, the position
    # command is not an alarm; writing a second `readyok` there is.)
    for rec0 in [r for r in recs if r.kind == "stdout"]:
        tname0 = rec0.args[0]
        meths0 = [f for f in fns if f.has_body and f.container is not None and f.container_kind == "impl" and impl_type_name(f.container) == tname0]
        P0 = {f.name for f in meths0 if re.search(r"\b(?:println|print|eprintln|eprint)!\s*\(", masked[f.sig_end:f.body_end])}
        ch0 = True
        while ch0:
            ch0 = False
            for f in meths0:
                if f.name not in P0 and any(re.search(r"\bself\s*\.\s*%s\s*\(" % re.escape(n), masked[f.sig_end:f.body_end]) for n in P0):
                    P0.add(f.name)
                    ch0 = True
        for f in meths0:
            if f.name not in P0:
                continue
            mine = [r for r in recs if r.kind in ("fn", "assumed") and r.args and r.args[0].split("::")[-1] == f.name and resolve_fn(fns, r.args[0], r.opts.get("impl")) is f]
            if any("out__" in "\n".join(r.body) for r in mine):
                continue
            default_clause = "        crate::stdspec::out_ext(old(out__).lines, final(out__).lines) && crate::stdspec::count_kind(crate::stdspec::out_since(old(out__).lines, final(out__).lines), 0) == 0 && crate::stdspec::count_kind(crate::stdspec::out_since(old(out__).lines, final(out__).lines), 1) == 0 && crate::stdspec::count_kind(crate::stdspec::out_since(old(out__).lines, final(out__).lines), 2) == 0,   // [C16] default output clause (N6)"
            if mine:
                r = mine[0]
                if any(re.match(r"\s*ensures\b", ln) for ln in r.body):
                    r.body.append(default_clause)
                else:
                    r.body.append("    ensures")
                    r.body.append(default_clause)
            else:
                recs.append(Rec("fn", ["%s::%s" % (tname0, f.name)], {"props": rec0.opts.get("props", "C16")}, ["    ensures", default_clause], rec0.origin + "#default-out"))
            recs.append(Rec("atexit", ["%s::%s" % (tname0, f.name)], {}, [
                "        proof {",
                "            reveal_strlit(\"uciok\"); reveal_strlit(\"readyok\");",
                "            assert(out__.lines.take(old(out__).lines.len() as int) =~= old(out__).lines);",
                "            crate::stdspec::lemma_count_since(old(out__).lines, out__.lines, 0); crate::stdspec::lemma_count_since(old(out__).lines, out__.lines, 1); crate::stdspec::lemma_count_since(old(out__).lines, out__.lines, 2);",
                "        }"], rec0.origin + "#default-out"))
            report.setdefault("default_out_clause", []).append("%s::%s::%s" % (mod, tname0, f.name))
    iso_fns = set()
    for rec in recs:
        if rec.kind == "isolate":
            iso_fns.add(id(fn_of(rec)))
    for rec in recs:
        k = rec.kind
        body = "\n".join(rec.body)
        if variant == "main" and k in ("loop", "before", "after", "closure", "atexit") and id(fn_of(rec)) in iso_fns:
            continue    # body hidden in this invocation: only the contract is spliced
        if k in ("fn", "assumed"):
            f = fn_of(rec)
            fq = "%s::%s" % (mod, rec.args[0])
            # named return
            sig = masked[f.fn_kw:f.sig_end]
            ret = rec.opts.get("ret", "r")
            arrow = None
            depth = 0
            for i, ch in enumerate(sig):
                if ch in "([<":
                    depth += 1 if ch != "<" else 0
                if ch in ")]":
                    depth -= 1
                if depth == 0 and sig.startswith("->", i):
                    arrow = f.fn_kw + i
                    break
            if arrow is not None:
                ty_start = arrow + 2
                # the return type ends at `where` or at sig_end
                wm = re.search(r"\bwhere\b", masked[ty_start:f.sig_end])
                ty_end = ty_start + wm.start() if wm else f.sig_end
                ty = src[ty_start:ty_end].strip()
                if not ty.startswith("("+ret+":") and "ensures" in body or rec.opts.get("ret"):
                    edits.append((ty_start, ty_end, " (%s: %s)\n" % (ret, ty)))
            edits.append((f.sig_end, f.sig_end, "\n" + body + "\n"))
            if k == "assumed":
                add_attr(f, "#[verifier::external_body]")
                report["assumed"].append({"fn": fq, "origin": rec.origin, "contract": body.strip()})
            else:
                report["under_contract"].append(fq)
            anchors.append({"kind": k, "anchor": fq, "origin": rec.origin})
            for p in rec.opts.get("props", "").split(","):
                if p:
                    report["fn_props"].setdefault(fq, []).append(p)
        elif k == "external":
            f = fn_of(rec)
            add_attr(f, "#[verifier::external]")
            report["external"].append("%s::%s" % (mod, rec.args[0]))
        elif k == "external_impl":
            sub = " ".join(rec.args) if rec.args else rec.opts.get("impl")
            bs = [b for b in blocks if sub in b.header]
            if len(bs) != 1:
                raise ExtractError("anchor-lost impl %r in %s: %d candidates" % (sub, mod, len(bs)))
            edits.append((bs[0].start, bs[0].start, "#[verifier::external]\n"))
            report["external"].append("%s::impl %s" % (mod, bs[0].header))
        elif k == "attr":
            f = fn_of(rec)
            for line in rec.body:
                if line.strip():
                    add_attr(f, line.strip())
            anchors.append({"kind": k, "anchor": "%s::%s" % (mod, rec.args[0]), "origin": rec.origin})
        elif k == "loop":
            f = fn_of(rec)
            ls = loops_in(masked, f)
            n = int(rec.args[1])
            if not (1 <= n <= len(ls)):
                raise ExtractError("anchor-lost loop %s #%d (%d loops found)" % (rec.args[0], n, len(ls)))
            kw, brace, kind = ls[n - 1]
            if "iter" in rec.opts:
                if kind != "for":
                    raise ExtractError("iter= on a non-for loop %s #%d" % (rec.args[0], n))
                im = re.search(r"\bin\b", masked[kw:brace])
                pos = kw + im.end()
                edits.append((pos, pos, " %s:" % rec.opts["iter"]))
            edits.append((brace, brace, "\n" + body + "\n"))
            anchors.append({"kind": k, "anchor": "%s::%s#loop%d" % (mod, rec.args[0], n), "origin": rec.origin})
        elif k in ("before", "after"):
            f = fn_of(rec)
            if not rec.body or not rec.body[0].startswith(">>>"):
                raise ExtractError("%s: @%s needs a `>>> text` first line" % (rec.origin, k))
            needle = rec.body[0][3:].strip()
            occ = int(rec.opts.get("occ", "1"))
            idx = f.sig_end
            for _ in range(occ):
                idx = src.find(needle, idx + 1, f.body_end)
                if idx < 0:
                    raise ExtractError("anchor-lost stmt %r in %s (occ %d)" % (needle, rec.args[0], occ))
            s, e = statement_bounds(masked, f, idx)
            ghost = "\n".join(rec.body[1:])
            pos = s if k == "before" else e
            edits.append((pos, pos, "\n" + ghost + "\n"))
            anchors.append({"kind": k, "anchor": "%s::%s@%r" % (mod, rec.args[0], needle), "origin": rec.origin})
        elif k == "println":
            # N6: in this function every `println!(LITERAL, args..);` statement becomes a ghost record of the line's format
            # literal in a local ghost log (declared at the top of the body); the arguments are not evaluated in the
            # verified text (output is not part of the state Verus sees; what is said about the arguments is asserted in
            # front of the statement by @before records anchored on the statement's own text)
            f = fn_of(rec)
            edits.append((f.sig_end + 1, f.sig_end + 1, "\n        let ghost mut out__log: Seq<Seq<char>> = Seq::empty();\n"))
            n_pr = 0
            for pm in re.finditer(r"\bprintln!\s*\(", masked[f.sig_end:f.body_end]):
                st = f.sig_end + pm.start()
                op = f.sig_end + pm.end() - 1
                cl = match_close(masked, op)
                lm = re.match(r'\s*("(?:[^"\\]|\\.)*")', src[op + 1:cl])
                if lm is None:
                    raise ExtractError("anchor-lost println without a format literal in %s" % rec.args[0])
                en = cl + 1
                while masked[en].isspace():
                    en += 1
                if masked[en] != ";":
                    raise ExtractError("anchor-lost println in expression position in %s" % rec.args[0])
                edits.append((st, en + 1, "proof { out__log = out__log.push(%s@); }" % lm.group(1)))
                n_pr += 1
                report["normalisations"].append({"rule": "N6", "file": "src/%s.rs" % mod, "line": src.count("\n", 0, st) + 1,
                                                 "what": "`println!(%s, ..);` -> ghost record of the format literal in out__log (arguments not evaluated)" % lm.group(1)})
            # the record's body (what the function must have written when it is left) goes in front of the closing brace of
            # the body and in front of every `return`
            if body.strip():
                edits.append((f.body_end, f.body_end, "\n" + body + "\n"))
                for rm in re.finditer(r"\breturn\b", masked[f.sig_end:f.body_end]):
                    rs, _re = statement_bounds(masked, f, f.sig_end + rm.start())
                    edits.append((rs, rs, "\n" + body + "\n"))
            anchors.append({"kind": k, "anchor": "%s::%s#println(%d)" % (mod, rec.args[0], n_pr), "origin": rec.origin})
        elif k == "dropprint":
            # N6c: the println!/print! statements of this function are dropped from the verified text (its output is NOT on the
            # stdout resource; said so in the evidence). For functions outside the type whose output is tracked.
            f = fn_of(rec)
            n_dp = 0
            for pm in re.finditer(r"\b(println|print)!\s*\(", masked[f.sig_end:f.body_end]):
                st = f.sig_end + pm.start()
                cl = match_close(masked, f.sig_end + pm.end() - 1)
                en = cl + 1
                while masked[en].isspace():
                    en += 1
                if masked[en] != ";":
                    raise ExtractError("anchor-lost %s! in expression position in %s" % (pm.group(1), rec.args[0]))
                edits.append((st, en + 1, "proof { }"))
                n_dp += 1
                report["normalisations"].append({"rule": "N6c", "file": "src/%s.rs" % mod, "line": src.count("\n", 0, st) + 1,
                                                 "what": "`%s!(..);` dropped from the verified text of %s (output of this function is not tracked)" % (pm.group(1), rec.args[0])})
            anchors.append({"kind": k, "anchor": "%s::%s#dropprint(%d)" % (mod, rec.args[0], n_dp), "origin": rec.origin})
        elif k == "atexit":
            # ghost text placed where the function is left: in front of the closing brace of the body and of every `return`
            # (proof hints that do not depend on the shape of the body)
            f = fn_of(rec)
            edits.append((f.body_end, f.body_end, "\n" + body + "\n"))
            for rm in re.finditer(r"\breturn\b", masked[f.sig_end:f.body_end]):
                rs, _re = statement_bounds(masked, f, f.sig_end + rm.start())
                edits.append((rs, rs, "\n" + body + "\n"))
            anchors.append({"kind": k, "anchor": "%s::%s#exit" % (mod, rec.args[0]), "origin": rec.origin})
        elif k == "stdout":
            # N6 (output) / N8 (input): the process's stdout and stdin as LINEAR GHOST RESOURCES.
            # Every method of the named type that contains a `println!`/`print!` statement, or calls (as `self.NAME(..)`) a method
            # that does, receives one extra ghost parameter `Tracked(out__): Tracked<&mut OutLog>` (erased at compile time), every
            # such call passes it on, and every `println!(LITERAL, args..);` statement becomes `proof { out__.put(LITERAL@); }` -
            # the arguments are not evaluated in the verified text; what must hold of them is asserted by @before records anchored
            # on the statement's own text.  The set of printing methods is recomputed from the source on every run, so a method that
            # starts to print joins it (and then has to say so in its contract, or its callers' contracts fail).
            # `std::io::stdin().read_line(&mut X)` becomes `crate::stdspec::stdin_read_line(&mut X, Tracked(in__))` (an
            # external_body function whose body is that very expression) and the enclosing method, and its callers inside the
            # type, receive `Tracked(in__): Tracked<&mut InStream>` the same way.
            tname = rec.args[0]
            meths = [f for f in fns if f.has_body and f.container is not None and f.container_kind == "impl" and impl_type_name(f.container) == tname]
            def fixpoint(seed_pat):
                P = {f.name for f in meths if re.search(seed_pat, masked[f.sig_end:f.body_end])}
                changed = True
                while changed:
                    changed = False
                    for f in meths:
                        if f.name in P:
                            continue
                        if any(re.search(r"\bself\s*\.\s*%s\s*\(" % re.escape(n), masked[f.sig_end:f.body_end]) for n in P):
                            P.add(f.name)
                            changed = True
                return P
            P_out = fixpoint(r"\b(?:println|print|eprintln|eprint)!\s*\(")
            P_in = fixpoint(r"\bstdin\s*\(\s*\)\s*\.\s*read_line\s*\(")
            for f in meths:
                extra = []
                if f.name in P_out:
                    extra.append("Tracked(out__): Tracked<&mut crate::stdspec::OutLog>")
                if f.name in P_in:
                    extra.append("Tracked(in__): Tracked<&mut crate::stdspec::InStream>")
                if not extra:
                    continue
                po = masked.find("(", f.fn_kw)
                pc = match_close(masked, po)
                inner = masked[po + 1:pc].strip()
                edits.append((pc, pc, (", " if inner and not inner.endswith(",") else "") + ", ".join(extra)))
                report["normalisations"].append({"rule": "N6", "file": "src/%s.rs" % mod, "line": src.count("\n", 0, f.fn_kw) + 1,
                                                 "what": "method %s::%s receives ghost parameter(s) %s (erased at compile time)" % (tname, f.name, "; ".join(extra))})
                # calls to threaded methods
                for cm in re.finditer(r"\bself\s*\.\s*([a-z_][a-z0-9_]*)\s*\(", masked[f.sig_end:f.body_end]):
                    callee = cm.group(1)
                    pass_on = []
                    if callee in P_out:
                        pass_on.append("Tracked(out__)")
                    if callee in P_in:
                        pass_on.append("Tracked(in__)")
                    if not pass_on:
                        continue
                    co = f.sig_end + cm.end() - 1
                    cc = match_close(masked, co)
                    cin = masked[co + 1:cc].strip()
                    edits.append((cc, cc, (", " if cin else "") + ", ".join(pass_on)))
                # output statements
                for pm in re.finditer(r"\b(println|print|eprintln|eprint)!\s*\(", masked[f.sig_end:f.body_end]):
                    st = f.sig_end + pm.start()
                    op = f.sig_end + pm.end() - 1
                    cl = match_close(masked, op)
                    lm = re.match(r'\s*("(?:[^"\\]|\\.)*")', src[op + 1:cl])
                    if lm is None:
                        if pm.group(1) == "println" and src[op + 1:cl].strip() == "":
                            lit = '""'
                        else:
                            raise ExtractError("anchor-lost %s! without a format literal in %s::%s" % (pm.group(1), tname, f.name))
                    else:
                        lit = lm.group(1)
                    en = cl + 1
                    while masked[en].isspace():
                        en += 1
                    if masked[en] != ";":
                        raise ExtractError("anchor-lost %s! in expression position in %s::%s" % (pm.group(1), tname, f.name))
                    tag = "" if pm.group(1) == "println" else ("[%s]" % pm.group(1))
                    lit_t = lit if not tag else '"%s%s' % (tag, lit[1:])
                    # (reveal_strlit: the characters of the literal are made known to the solver here, so that no contract or
                    #  proof hint has to name the engine's texts)
                    edits.append((st, en + 1, "proof { reveal_strlit(%s); out__.put(%s@); }" % (lit_t, lit_t)))
                    report["normalisations"].append({"rule": "N6", "file": "src/%s.rs" % mod, "line": src.count("\n", 0, st) + 1,
                                                     "what": "`%s!(%s, ..);` -> ghost record of the format literal on the stdout resource (arguments not evaluated)" % (pm.group(1), lit)})
                for rm in re.finditer(r"\bstd::io::stdin\s*\(\s*\)\s*\.\s*read_line\s*\(\s*&mut\s+([a-z_][a-z0-9_]*)\s*\)", masked[f.sig_end:f.body_end]):
                    st = f.sig_end + rm.start()
                    en = f.sig_end + rm.end()
                    edits.append((st, en, "crate::stdspec::stdin_read_line(&mut %s, Tracked(in__))" % rm.group(1)))
                    report["normalisations"].append({"rule": "N8", "file": "src/%s.rs" % mod, "line": src.count("\n", 0, st) + 1,
                                                     "what": "`std::io::stdin().read_line(&mut %s)` -> `crate::stdspec::stdin_read_line(&mut %s, Tracked(in__))` (external_body, body = that expression; the input stream is a ghost resource)" % (rm.group(1), rm.group(1))})
            report.setdefault("stdout_threaded", {})["%s::%s" % (mod, tname)] = {"printing": sorted(P_out), "reading": sorted(P_in)}
            anchors.append({"kind": k, "anchor": "%s::impl %s#stdout(%d printing, %d reading)" % (mod, tname, len(P_out), len(P_in)), "origin": rec.origin})
        elif k == "closure":
            f = fn_of(rec)
            cs = closures_in(masked, f)
            n = int(rec.args[1])
            if not (1 <= n <= len(cs)):
                raise ExtractError("anchor-lost closure %s #%d (%d found)" % (rec.args[0], n, len(cs)))
            b1, b2, bs, be = cs[n - 1]
            edits.append((b1, b2 + 1, "|%s| -> (%s)\n%s\n" % (rec.opts["params"], rec.opts["ret"], body)))
            if masked[bs] != "{":
                edits.append((bs, bs, "{ "))
                edits.append((be, be, " }"))
            report["normalisations"].append({"rule": "N4", "file": "src/%s.rs" % mod,
                                             "line": src.count("\n", 0, b1) + 1,
                                             "what": "closure #%d of %s typed as |%s| -> (%s) with contract" % (
                                                 n, rec.args[0], rec.opts["params"], rec.opts["ret"])})
            anchors.append({"kind": k, "anchor": "%s::%s#closure%d" % (mod, rec.args[0], n), "origin": rec.origin})
        elif k in ("impl", "trait"):
            sub = " ".join(rec.args)
            bs = [b for b in blocks if b.kind == k and (b.header == sub or sub in b.header)]
            exact = [b for b in bs if b.header == sub]
            if len(exact) == 1:
                bs = exact
            if len(bs) != 1:
                raise ExtractError("anchor-lost %s %r in %s: %d candidates" % (k, sub, mod, len(bs)))
            edits.append((bs[0].open_idx + 1, bs[0].open_idx + 1, "\n" + body + "\n"))
            anchors.append({"kind": k, "anchor": "%s::%s %s" % (mod, k, sub), "origin": rec.origin})
        elif k == "isolate":
            f = fn_of(rec)
            fq = "%s::%s" % (mod, rec.args[0])
            hide = [h for h in rec.opts.get("hide", "").split(",") if h]
            report.setdefault("isolated", []).append({"fn": fq, "module": mod, "hide": ["%s::%s" % (mod, h) for h in hide]})
            if variant == "main":
                # in the main invocation the isolated function is seen through its contract only
                add_attr(f, "#[verifier::external_body]")
            elif variant == "iso:" + fq:
                for h in hide:
                    add_attr(resolve_fn(fns, h), "#[verifier::external_body]")
        elif k == "fields":
            # stale-contract guard: the struct's field list must be the one the contract was written for
            sname = rec.args[0]
            sm = re.search(r"\bstruct[ \t]+%s\b[^{;]*\{" % re.escape(sname), masked)
            if not sm:
                raise ExtractError("anchor-lost struct %s in %s" % (sname, mod))
            so = masked.find("{", sm.start())
            sc = match_close(masked, so)
            have = re.findall(r"(?m)^\s*(?:pub(?:\([a-z]+\))?\s+)?([a-z_][a-z0-9_]*)\s*:", masked[so + 1:sc])
            want_f = [x.strip() for x in body.replace("\n", ",").split(",") if x.strip()]
            if have != want_f:
                # reported to the driver, which stops (exit 2, "contract-stale") only for the properties the guard protects;
                # contracts of other properties simply do not constrain the new field
                report.setdefault("stale_fields", []).append({"struct": "%s::%s" % (mod, sname), "have": have, "want": want_f, "origin": rec.origin,
                                                              "props": [x for x in rec.opts.get("props", "").split(",") if x]})
            anchors.append({"kind": k, "anchor": "%s::struct %s" % (mod, sname), "origin": rec.origin})
        elif k == "module":
            module_items.append(body)
        elif k == "uses":
            uses.append(body)
        else:
            raise ExtractError("%s: unknown record kind @%s" % (rec.origin, k))
    # functions without any contract whose bodies Verus cannot ingest (reported by the driver after a first run):
    # body hidden, NO contract assumed, so every caller sees an arbitrary effect
    for (hmod, hname, hcont) in havoc:
        if hmod != mod:
            continue
        for f in fns:
            if f.name == hname and (f.container or None) == (hcont or None):
                fq = "%s::%s" % (mod, hname)
                if f.item_start in fn_attrs and any("external" in a for a in fn_attrs[f.item_start]):
                    continue
                add_attr(f, "#[verifier::external_body]")
                report.setdefault("auto_havoc", []).append({"fn": fq, "container": hcont})
    for pos, attrs in fn_attrs.items():
        edits.append((pos, pos, "".join(a + "\n" for a in attrs)))
    out = apply_edits(src, edits)
    return "\n".join(uses) + "\n" + out + "\n" + "\n".join(module_items) + "\n"


def sha256(path):
    return hashlib.sha256(open(path, "rb").read()).hexdigest()


def extract(out_path: str, report_path: str, contracts_dir=None, modules=None, havoc=(), light_magic=False, variant="main"):
    contracts_dir = contracts_dir or os.path.join(VERIF, "contracts")
    report = {"sources": {}, "anchors": [], "normalisations": [], "assumed": [], "external": [],
              "under_contract": [], "fn_props": {}, "contracts": {}}
    srcdir = os.path.join(REPO, "src")
    main_rs = open(os.path.join(srcdir, "main.rs")).read()
    declared = re.findall(r"(?m)^mod ([a-z_]+);", main_rs)
    mods = [m for m in MODULE_ORDER if m in declared] + [m for m in declared if m not in MODULE_ORDER]
    if modules:
        mods = [m for m in mods if m in modules]
    parts = ["// GENERATED by /verif/tools/extract.py from %s/src -- do not edit\n" % REPO,
             "#![allow(unused_imports, dead_code, unused_variables, unused_mut, unused_parens, non_snake_case)]\n",
             "#![feature(allocator_api)]\n", "#![feature(slice_concat_trait)]\n",
             "use vstd::prelude::*;\n"]
    for extra in ("std", "model"):
        p = os.path.join(contracts_dir, extra + ".vspec")
        if os.path.exists(p):
            report["contracts"][extra + ".vspec"] = sha256(p)
            recs = parse_vspec(p)
            body = "\n".join("\n".join(r.body) for r in recs if r.kind == "module")
            uses = "\n".join("\n".join(r.body) for r in recs if r.kind == "uses")
            parts.append("pub mod %s {\nuse vstd::prelude::*;\n%s\nverus! {\n%s\n} // verus!\n}\n" % (
                "stdspec" if extra == "std" else extra, uses, body))
    for m in mods:
        path = os.path.join(srcdir, m + ".rs")
        src = open(path).read()
        report["sources"]["src/%s.rs" % m] = sha256(path)
        src = cut_tests_and_hooks(m, src, report["normalisations"])
        src = normalise(m, src, report["normalisations"])
        vs = os.path.join(contracts_dir, m + ".vspec")
        recs = []
        if os.path.exists(vs):
            report["contracts"][m + ".vspec"] = sha256(vs)
            recs = parse_vspec(vs)
        text = splice_module(m, src, recs, report, havoc, variant)
        parts.append("pub mod %s {\nuse vstd::prelude::*;\n#[allow(unused_imports)] use crate::stdspec::*;\n"
                     "#[allow(unused_imports)] use crate::model::*;\nverus! {\n%s\n} // verus!\n}\n" % (m, text))
    # machine-generated lemma module: one bit-vector lemma per (square, slider) from the magic constants as they stand
    if modules is None or "magic" in mods:
        sys.path.insert(0, os.path.join(VERIF, "tools", "gen"))
        import gen_magic_lemmas
        try:
            ml = gen_magic_lemmas.generate(open(os.path.join(srcdir, "magic.rs")).read(),
                                           squares=os.environ.get("VERIF_MAGIC_SQUARES") and [int(x) for x in os.environ["VERIF_MAGIC_SQUARES"].split(",")],
                                           light=light_magic)
            report["magic_lemmas_light"] = light_magic
        except ValueError as e:
            raise ExtractError(str(e))
        for mname, mtext in ml:
            parts.append("pub mod %s {\nuse vstd::prelude::*;\n#[allow(unused_imports)] use crate::model::*;\nverus! {\n%s\n} // verus!\n}\n" % (mname, mtext))
        report["generated_modules"] = [m for m, _ in ml]
    parts.append("fn main() {}\n")
    os.makedirs(os.path.dirname(out_path), exist_ok=True)
    with open(out_path, "w") as fh:
        fh.write("".join(parts))
    report["modules"] = mods
    with open(report_path, "w") as fh:
        json.dump(report, fh, indent=1)
    return report


if __name__ == "__main__":
    out = sys.argv[1] if len(sys.argv) > 1 else os.path.join(VERIF, "build", "flounder_v.rs")
    rep = sys.argv[2] if len(sys.argv) > 2 else os.path.join(VERIF, "build", "extract_report.json")
    try:
        r = extract(out, rep, light_magic=bool(os.environ.get("VERIF_LIGHT")), variant=os.environ.get("VERIF_VARIANT", "main"))
    except ExtractError as e:
        print("EXTRACT-ERROR: %s" % e)
        sys.exit(2)
    print("extracted %d modules, %d anchors, %d normalisations, %d assumed" % (
        len(r["modules"]), len(r["anchors"]), len(r["normalisations"]), len(r["assumed"])))
