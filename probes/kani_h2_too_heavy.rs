use crate::bitboard::*;
use crate::board::*;
use crate::lookup::*;
use crate::magic::*;
use crate::move_gen::*;
use crate::moves::*;
use crate::pieces::*;
use crate::square::*;

// ---- geometric reference (spec side) ----
fn ray_attacks(sq: u8, occ: u64, dirs: &[(i8, i8); 4]) -> u64 {
    let mut out = 0u64;
    let r0 = (sq / 8) as i8;
    let f0 = (sq % 8) as i8;
    let mut d = 0;
    while d < 4 {
        let (dr, df) = dirs[d];
        let mut k = 1i8;
        while k < 8 {
            let r = r0 + dr * k;
            let f = f0 + df * k;
            if r < 0 || r > 7 || f < 0 || f > 7 { break; }
            let b = 1u64 << ((r * 8 + f) as u8);
            out |= b;
            if occ & b != 0 { break; }
            k += 1;
        }
        d += 1;
    }
    out
}
const ROOK_DIRS: [(i8, i8); 4] = [(1, 0), (-1, 0), (0, 1), (0, -1)];
const BISHOP_DIRS: [(i8, i8); 4] = [(1, 1), (1, -1), (-1, 1), (-1, -1)];

pub fn spec_sliding(_s: &LookupTable, square: Square, occupancy: Bitboard, piece: Piece) -> Bitboard {
    match piece {
        Piece::Bishop => ray_attacks(square, occupancy, &BISHOP_DIRS),
        Piece::Rook => ray_attacks(square, occupancy, &ROOK_DIRS),
        Piece::Queen => ray_attacks(square, occupancy, &BISHOP_DIRS) | ray_attacks(square, occupancy, &ROOK_DIRS),
        _ => 0,
    }
}
fn leaper(sq: u8, deltas: &[(i8, i8); 8]) -> u64 {
    let r0 = (sq / 8) as i8;
    let f0 = (sq % 8) as i8;
    let mut out = 0u64;
    let mut i = 0;
    while i < 8 {
        let r = r0 + deltas[i].0;
        let f = f0 + deltas[i].1;
        if r >= 0 && r < 8 && f >= 0 && f < 8 { out |= 1u64 << ((r * 8 + f) as u8); }
        i += 1;
    }
    out
}
const KN: [(i8, i8); 8] = [(2, 1), (2, -1), (-2, 1), (-2, -1), (1, 2), (1, -2), (-1, 2), (-1, -2)];
const KG: [(i8, i8); 8] = [(1, 0), (-1, 0), (0, 1), (0, -1), (1, 1), (1, -1), (-1, 1), (-1, -1)];
pub fn spec_non_sliding(_s: &LookupTable, square: Square, piece: Piece) -> Bitboard {
    match piece { Piece::Knight => leaper(square, &KN), Piece::King => leaper(square, &KG), _ => 0 }
}
pub fn spec_between(_s: &LookupTable, from: Square, to: Square, inclusive: bool) -> Bitboard {
    let fb = 1u64 << from; let tb = 1u64 << to;
    if from == to { return 0; }
    let (occ_f, occ_t) = if inclusive { (tb, fb) } else { (0, 0) };
    let fba = ray_attacks(from, occ_f, &BISHOP_DIRS);
    let fra = ray_attacks(from, occ_f, &ROOK_DIRS);
    let fba0 = ray_attacks(from, if inclusive {tb} else {0}, &BISHOP_DIRS);
    let _ = fba0;
    let tba = ray_attacks(to, occ_t, &BISHOP_DIRS);
    let tra = ray_attacks(to, occ_t, &ROOK_DIRS);
    if ray_attacks(from, 0, &BISHOP_DIRS) & tb != 0 { return (fba & tba) | fb | tb; }
    if ray_attacks(from, 0, &ROOK_DIRS) & tb != 0 { return (fra & tra) | fb | tb; }
    0
}

fn dummy_lookup() -> LookupTable {
    LookupTable {
        knight_lookup: [0; 64],
        king_lookup: [0; 64],
        magic_table: Magic { rook_attack_masks: [0; 64], bishop_attack_masks: [0; 64], rook_attacks: Vec::new(), bishop_attacks: Vec::new(), rook_magics: [0; 64], bishop_magics: [0; 64] },
        inclusive_between_lookup: [[0; 64]; 64],
        exclusive_between_lookup: [[0; 64]; 64],
    }
}

fn any_piece() -> Piece {
    match kani::any::<u8>() % 6 { 0 => Piece::Pawn, 1 => Piece::Knight, 2 => Piece::Bishop, 3 => Piece::Rook, 4 => Piece::Queen, _ => Piece::King }
}

// symbolic board: two kings + N extra symbolic pieces
fn any_board(n_extra: usize) -> Board {
    let mut b = Board::new("8/8/8/8/8/8/8/8 w - - 0 1");
    let wk: u8 = kani::any(); let bk: u8 = kani::any();
    kani::assume(wk < 64 && bk < 64 && wk != bk);
    b.add_piece(Color::White, Piece::King, wk);
    b.add_piece(Color::Black, Piece::King, bk);
    let mut i = 0;
    while i < n_extra {
        let sq: u8 = kani::any();
        kani::assume(sq < 64);
        kani::assume(b.bb_all() & (1u64 << sq) == 0);
        let p = any_piece();
        kani::assume(p != Piece::King);
        kani::assume(p != Piece::Pawn || (sq >= 8 && sq < 56));
        let c = if kani::any() { Color::White } else { Color::Black };
        b.add_piece(c, p, sq);
        i += 1;
    }
    if kani::any() { b.change_color(); }
    b
}

fn attacked_by(board: &Board, sq: u8, by: Color, lt: &LookupTable) -> bool {
    let occ = board.bb_all();
    let sqb = 1u64 << sq;
    let pawn_src = match by { Color::Black => sqb.shift(NORTH + WEST) | sqb.shift(NORTH + EAST), Color::White => sqb.shift(SOUTH + WEST) | sqb.shift(SOUTH + EAST) };
    (pawn_src & board.bb(by, Piece::Pawn)) != 0
        || (spec_non_sliding(lt, sq, Piece::Knight) & board.bb(by, Piece::Knight)) != 0
        || (spec_non_sliding(lt, sq, Piece::King) & board.bb(by, Piece::King)) != 0
        || (spec_sliding(lt, sq, occ, Piece::Bishop) & (board.bb(by, Piece::Bishop) | board.bb(by, Piece::Queen))) != 0
        || (spec_sliding(lt, sq, occ, Piece::Rook) & (board.bb(by, Piece::Rook) | board.bb(by, Piece::Queen))) != 0
}


#[kani::proof]
#[kani::unwind(9)]
#[kani::stub(crate::lookup::LookupTable::sliding_moves, spec_sliding)]
#[kani::stub(crate::lookup::LookupTable::non_sliding_moves, spec_non_sliding)]
#[kani::stub(crate::lookup::LookupTable::between, spec_between)]
fn is_legal_matches_king_safety() {
    let mg = MoveGenerator { lookup: dummy_lookup() };
    let board = any_board(4);
    let us = board.active_color();
    let ksq = mg.king_square(&board);
    let them_k = board.bb(!us, Piece::King).trailing_zeros() as u8;
    kani::assume(!attacked_by(&board, them_k, us, &mg.lookup));

    let from: u8 = kani::any(); let to: u8 = kani::any();
    kani::assume(from < 64 && to < 64);
    let p = match board.get_piece_at(from) { Some(p) => p, None => { kani::assume(false); Piece::Pawn } };
    kani::assume(board.bb_color(us) & (1u64 << from) != 0);
    kani::assume(p != Piece::Pawn);
    let dest = match p { Piece::Knight | Piece::King => spec_non_sliding(&mg.lookup, from, p), _ => spec_sliding(&mg.lookup, from, board.bb_all(), p) };
    kani::assume(dest & (1u64 << to) != 0);
    kani::assume(board.bb_color(us) & (1u64 << to) == 0);
    let mt = if board.bb_all() & (1u64 << to) != 0 { MoveType::Capture } else { MoveType::Quiet };
    kani::assume(board.bb(!us, Piece::King) & (1u64 << to) == 0);
    let mv = Move::new(from, to, p, mt);

    let pinned = mg.get_pinned_pieces(&board, ksq);
    let checkers = mg.attacks_to(&board, ksq);
    let engine = mg.is_legal(&board, &mv, checkers, pinned, ksq);
    let after = board.clone_with_move(&mv);
    let new_k = after.bb(us, Piece::King).trailing_zeros() as u8;
    let safe = !attacked_by(&after, new_k, !us, &mg.lookup);
    assert_eq!(engine, safe);
}
