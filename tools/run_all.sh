#!/bin/sh
# developer helper: run every claimed check (quick tier by default) on the current tree and summarise
cd "$(dirname "$0")/.." || exit 2
tier=${1:-quick}
for p in $(python3 -c "import json; print(' '.join(c['property_id'] for c in json.load(open('MANIFEST.json'))['checks']))"); do
  out=$(./check $p --tier $tier 2>&1); rc=$?
  echo "$p exit=$rc $(echo "$out" | grep '^property=' | tail -1)"
  [ $rc -ne 0 ] && echo "$out" | grep "VIOLATION\|UNDECIDED\|KNOWN" | head -5
done
