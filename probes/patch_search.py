import re
s=open('all.rs').read()
def rep(a,b,cnt=1):
    global s
    assert s.count(a)>=1, a
    s=s.replace(a,b,cnt)

# ---------------- timer: node-clock model
rep("impl SearchTimer {", """impl SearchTimer {
    pub closed spec fn spec_nodes(&self) -> nat { self.nodes_searched as nat }
    pub uninterp spec fn budget(&self) -> nat;
    pub open spec fn expired(&self) -> bool { self.spec_nodes() >= self.budget() }
""")
rep("    #[verifier::external_body]\n    pub fn should_stop(&self) -> bool {", """    #[verifier::external_body]
    pub fn should_stop(&self) -> (r: bool)
        ensures r == self.expired()
    {""")
rep("    pub fn increment_nodes(&mut self) {", """    pub fn increment_nodes(&mut self)
        requires old(self).spec_nodes() < u64::MAX
        ensures final(self).spec_nodes() == old(self).spec_nodes() + 1,
            final(self).budget() == old(self).budget(),
    {
        proof { admit(); } // probe only: budget is a function of start/limit fields
""")
rep("impl TranspositionTable {", '''impl TranspositionTable {
    pub closed spec fn view(&self) -> Map<u64, Entry> { self.table@ }
''')
rep("    pub fn store(&mut self, hash_key: u64, eval: i32, best_move: Option<Move>, depth: u8, bounds: Bounds) {", '''    pub fn store(&mut self, hash_key: u64, eval: i32, best_move: Option<Move>, depth: u8, bounds: Bounds)
        ensures
            final(self)@ == (if old(self)@.contains_key(hash_key) && old(self)@[hash_key].depth > depth { old(self)@ } else {
                old(self)@.insert(hash_key, Entry { hash_key, eval, best_move, depth, bounds }) }),
    {''')
# ---------------- search
rep("impl Searcher {", """impl Searcher {
    pub closed spec fn nodes(&self) -> nat { self.timer.spec_nodes() }
    pub closed spec fn expired(&self) -> bool { self.timer.expired() }
    pub closed spec fn budget(&self) -> nat { self.timer.budget() }
    pub closed spec fn rep_view(&self) -> crate::repetition::RepetitionTable { self.repetition }
    pub closed spec fn tt_view(&self) -> Map<u64, crate::transposition::Entry> { self.transposition_table@ }
""")
rep("""        mut context: SearchContext,
    ) -> SearchResult {""", """        mut context: SearchContext,
    ) -> (res: SearchResult)
        requires old(self).nodes() + 1_000_000_000 < u64::MAX,
        ensures
            final(self).rep_view() == old(self).rep_view(),
            final(self).budget() == old(self).budget(),
            final(self).nodes() >= old(self).nodes(),
            old(self).expired() ==> final(self).nodes() <= old(self).nodes() + 2,
            old(self).expired() ==> final(self).tt_view() == old(self).tt_view(),
        decreases depth
    {""")
rep("    fn search_until_quiet(&mut self, board: &Board, mut alpha: i32, beta: i32) -> i32 {", '''    #[verifier::exec_allows_no_decreases_clause]
    fn search_until_quiet(&mut self, board: &Board, mut alpha: i32, beta: i32) -> (r: i32)
        requires old(self).nodes() + 1_000_000_000 < u64::MAX,
        ensures
            final(self).rep_view() == old(self).rep_view(),
            final(self).tt_view() == old(self).tt_view(),
            final(self).budget() == old(self).budget(),
            final(self).nodes() >= old(self).nodes(),
            old(self).expired() ==> final(self).nodes() <= old(self).nodes() + 1,
    {''')
rep("    pub fn add_nodes(&mut self, count: u64) {", "    #[verifier::external_body]\n    pub fn add_nodes(&mut self, count: u64) {")
open('all_p.rs','w').write(s)
