//! Sub-commands. Each prints one JSON object on stdout:
//!   {"name": .., "evaluations": n, "distinct": n, "bound": "..", "violation": null | {"input":.., "real":.., "expected":..}, "samples": [..]}
//! and exits 0 (no violation found), 1 (violation found and reproduced) or 2 (usage / internal error).
use crate::board::Board;
use crate::move_gen::MoveGenerator;
use crate::moves::{Move, MoveType};
use crate::pieces::{Color, Piece};
use crate::refchess::*;
use crate::search::Searcher;
use crate::timer::verif_hook;
use crate::transposition::{Bounds, TranspositionTable};
use crate::uci::Flounder;
use crate::zobrist::ZobristTable;
use std::collections::{BTreeSet, HashMap, HashSet};

fn jstr(s: &str) -> String { format!("\"{}\"", s.replace('\\', "\\\\").replace('"', "\\\"").replace('\n', "\\n")) }

struct Report { name: String, evals: u64, distinct: u64, bound: String, violation: Option<String>, samples: Vec<String> }
impl Report {
    fn new(name: &str, bound: &str) -> Self { Report { name: name.into(), evals: 0, distinct: 0, bound: bound.into(), violation: None, samples: vec![] } }
    fn sample(&mut self, s: String) { if self.samples.len() < 6 { self.samples.push(s); } }
    fn finish(self) -> i32 {
        println!("{{\"name\": {}, \"evaluations\": {}, \"distinct\": {}, \"bound\": {}, \"violation\": {}, \"samples\": [{}]}}",
                 jstr(&self.name), self.evals, self.distinct, jstr(&self.bound), self.violation.clone().unwrap_or("null".into()), self.samples.join(", "));
        if self.violation.is_some() { 1 } else { 0 }
    }
}

pub const SPECIAL_FENS: &[&str] = &[
    "rnbqkbnr/pppppppp/8/8/8/8/PPPPPPPP/RNBQKBNR w KQkq - 0 1",
    "r3k2r/p1ppqpb1/bn2pnp1/3PN3/1p2P3/2N2Q1p/PPPBBPPP/R3K2R w KQkq - 0 1",
    "8/2p5/3p4/KP5r/1R3p1k/8/4P1P1/8 w - - 0 1",
    "r3k2r/Pppp1ppp/1b3nbN/nP6/BBP1P3/q4N2/Pp1P2PP/R2Q1RK1 w kq - 0 1",
    "rnbq1k1r/pp1Pbppp/2p5/8/2B5/8/PPP1NnPP/RNBQK2R w KQ - 1 8",
    "r4rk1/1pp1qppp/p1np1n2/2b1p1B1/2B1P1b1/P1NP1N2/1PP1QPPP/R4RK1 w - - 0 10",
    "8/8/8/4k3/8/8/4K3/8 w - - 0 1",
    "r3k2r/8/8/8/8/8/8/R3K2R w KQkq - 0 1",
    "r3k2r/8/8/8/8/8/8/R3K2R b KQkq - 0 1",
    "8/8/8/8/8/8/6k1/4K2R w K - 0 1",
    "8/8/8/8/8/8/1k6/R3K3 w Q - 0 1",
    "4k2r/6K1/8/8/8/8/8/8 b k - 0 1",
    "8/8/8/8/8/8/6k1/R3K2R b KQ - 0 1",
    "8/PPPPPP1k/8/8/8/8/pppppp1K/8 w - - 0 1",
    "4k3/8/8/8/3pP3/8/8/4K3 b - e3 0 1",
    "8/8/8/2k5/3pP3/8/8/4K2B b - e3 0 1",
    "8/8/8/8/k2pP2R/8/8/4K3 b - e3 0 1",
    "4k3/8/8/K2pP2r/8/8/8/8 w - d6 0 1",
    "rnbqkbnr/ppp1p1pp/8/3pPp2/8/8/PPPP1PPP/RNBQKBNR w KQkq f6 0 3",
    "4k3/5p2/8/6B1/8/7q/6P1/3R2K1 w - - 0 1",
    "2b1r1k1/3q1ppp/8/8/8/8/5PPP/3R2K1 w - - 0 1",
    "6k1/5ppp/8/8/8/8/8/R3K3 w Q - 0 1",
    "r1bqkb1r/pppp1ppp/2n2n2/4p2Q/2B1P3/8/PPPP1PPP/RNB1K1NR w KQkq - 4 4",
    "k7/8/8/8/8/8/R7/1R2K3 w - - 0 1",
    "7k/5Q2/6K1/8/8/8/8/8 b - - 0 1",
    "7k/8/5QK1/8/8/8/8/8 w - - 0 1",
    "n1n5/PPPk4/8/8/8/8/4Kppp/5N1N b - - 0 1",
    "3k4/3p4/8/K1P4r/8/8/8/8 b - - 0 1",
    "8/8/4k3/8/2p5/8/B2P2K1/8 w - - 0 1",
    "5k2/8/8/8/8/8/8/4K2R w K - 0 1",
    "3k4/8/8/8/8/8/8/R3K3 w Q - 0 1",
    "r3k3/8/8/8/8/8/8/3K4 b q - 0 1",
    "4k3/8/8/8/8/8/5p2/R3K2R w KQ - 0 1",
    "r3k2r/5P2/8/8/8/8/8/4K3 b kq - 0 1",
];

/// deterministic corpus: the special positions plus positions reached from them by pseudo-random legal play
pub fn corpus(seed: u64, walks: usize, plies: usize) -> Vec<RPos> {
    let mut rng = Rng(seed.wrapping_mul(0x9E3779B97F4A7C15) | 1);
    let mut seen: HashSet<RPos> = HashSet::new();
    let mut out = Vec::new();
    for f in SPECIAL_FENS {
        let p = parse_fen(f).expect("special fen");
        if valid(&p) && seen.insert(p.clone()) { out.push(p); }
    }
    let roots = out.clone();
    for w in 0..walks {
        let mut p = roots[w % roots.len()].clone();
        for _ in 0..plies {
            let ms = legal_moves(&p);
            if ms.is_empty() { break; }
            // prefer tactical / special moves now and then so that captures, promotions, castles and ep are well represented
            let m = ms[rng.below(ms.len())];
            p = apply(&p, m);
            if !valid(&p) { break; }
            if seen.insert(p.clone()) { out.push(p.clone()); }
        }
    }
    out
}

fn eng_board(p: &RPos) -> Board { Board::new(&to_fen(p)) }

fn eng_pos_string(b: &Board) -> String {
    // placement/flags of an engine board read through its public accessors, in FEN-like form
    let mut s = String::new();
    for rank in (0..8).rev() {
        for file in 0..8 {
            let sq = (rank * 8 + file) as u8;
            let ch = match (b.get_color_at(sq), b.get_piece_at(sq)) {
                (Some(c), Some(p)) => {
                    let ch = match p { Piece::Pawn => 'p', Piece::Knight => 'n', Piece::Bishop => 'b', Piece::Rook => 'r', Piece::Queen => 'q', Piece::King => 'k' };
                    if c == Color::White { ch.to_ascii_uppercase() } else { ch }
                }
                (None, None) => '.',
                _ => '?',
            };
            s.push(ch);
        }
        s.push('/');
    }
    let (wk, wq) = b.castling_ability(Color::White);
    let (bk, bq) = b.castling_ability(Color::Black);
    s.push_str(&format!(" {} {}{}{}{} {:?}", if b.active_color() == Color::White { 'w' } else { 'b' },
                        if wk { "K" } else { "" }, if wq { "Q" } else { "" }, if bk { "k" } else { "" }, if bq { "q" } else { "" }, b.en_passant_target));
    s
}
fn ref_pos_string(p: &RPos) -> String {
    let mut s = String::new();
    for rank in (0..8).rev() {
        for file in 0..8 {
            let ch = match p.sq[rank * 8 + file] {
                Some((c, pc)) => {
                    let ch = match pc { Pc::P => 'p', Pc::N => 'n', Pc::B => 'b', Pc::R => 'r', Pc::Q => 'q', Pc::K => 'k' };
                    if c == Col::W { ch.to_ascii_uppercase() } else { ch }
                }
                None => '.',
            };
            s.push(ch);
        }
        s.push('/');
    }
    s.push_str(&format!(" {} {}{}{}{} {:?}", if p.stm == Col::W { 'w' } else { 'b' },
                        if p.wk { "K" } else { "" }, if p.wq { "Q" } else { "" }, if p.bk { "k" } else { "" }, if p.bq { "q" } else { "" }, p.ep));
    s
}

fn seed_arg(args: &[String]) -> u64 { args.iter().find_map(|a| a.strip_prefix("--seed=").and_then(|v| v.parse().ok())).unwrap_or(1) }
fn num_arg(args: &[String], key: &str, default: usize) -> usize {
    args.iter().find_map(|a| a.strip_prefix(&format!("--{}=", key)).and_then(|v| v.parse().ok())).unwrap_or(default)
}
fn str_arg<'a>(args: &'a [String], key: &str) -> Option<&'a str> {
    args.iter().find_map(|a| a.strip_prefix(&format!("--{}=", key)))
}

pub fn dispatch(cmd: &str, args: &[String]) -> i32 {
    match cmd {
        "movegen" => movegen(args),
        "tt-seq" => tt_seq(args),
        "hash-components" => hash_components(args),
        "budget" => budget(args),
        "search-interrupt" => search_interrupt(args),
        "bestmove" => bestmove(args),
        "overrun" => overrun(args),
        "tables" => tables(args),
        "eval" => eval_cmd(args),
        "game-history" => game_history(args),
        "minimax" => minimax_cmd(args),
        "newgame" => newgame_cmd(args),
        "movegen-small" => movegen_small(args),
        "mate-in-one" => mate_in_one(args),
        "position-cmd" => position_cmd(args),
        "to-algebraic" => to_algebraic_all(args),
        "uci-loop" => { Flounder::new().uci_loop(); 0 }
        "uci-session" => uci_session(args),
        "uci-process" => uci_process(args),
        _ => { eprintln!("unknown command {}", cmd); 2 }
    }
}

// ------------------------------------------------------------------------------------------------ C01 / C02 / C17
/// generate_moves / is_in_check / clone_with_move / generate_quiescence_moves against the reference rules
fn movegen(args: &[String]) -> i32 {
    let seed = seed_arg(args);
    let walks = num_arg(args, "walks", 300);
    let plies = num_arg(args, "plies", 40);
    let what = str_arg(args, "what").unwrap_or("all");
    let mut rep = Report::new(&format!("movegen[{}]", what), &format!("{} special positions + {} pseudo-random legal walks of <= {} plies (seed {})", SPECIAL_FENS.len(), walks, plies, seed));
    let mg = MoveGenerator::new();
    let positions: Vec<RPos> = match str_arg(args, "fen") { Some(f) => vec![parse_fen(f).expect("fen")], None => corpus(seed, walks, plies) };
    for p in &positions {
        let fen = to_fen(p);
        let b = eng_board(p);
        rep.evals += 1;
        let ref_moves: BTreeSet<String> = legal_moves(p).iter().map(|m| m.uci()).collect();
        let eng: Vec<Move> = mg.generate_moves(&b);
        let eng_set: BTreeSet<String> = eng.iter().map(|m| m.to_algebraic()).collect();
        if what == "all" || what == "legal" {
            if eng_set != ref_moves || eng_set.len() != eng.len() {
                let missing: Vec<&String> = ref_moves.difference(&eng_set).collect();
                let extra: Vec<&String> = eng_set.difference(&ref_moves).collect();
                rep.violation = Some(format!("{{\"input\": {{\"fen\": {}}}, \"real\": {{\"missing\": {:?}, \"extra\": {:?}, \"duplicates\": {}}}, \"expected\": \"generate_moves == legal moves of the rules\"}}", jstr(&fen), missing, extra, eng.len() - eng_set.len()));
                return rep.finish();
            }
            if mg.is_in_check(&b) != in_check(p, p.stm) {
                rep.violation = Some(format!("{{\"input\": {{\"fen\": {}}}, \"real\": {{\"is_in_check\": {}}}, \"expected\": {{\"is_in_check\": {}}}}}", jstr(&fen), mg.is_in_check(&b), in_check(p, p.stm)));
                return rep.finish();
            }
        }
        if what == "all" || what == "make" {
            for m in &eng {
                let u = m.to_algebraic();
                let rm = match legal_moves(p).into_iter().find(|x| x.uci() == u) { Some(x) => x, None => continue };
                let nb = b.clone_with_move(m);
                let np = apply(p, rm);
                rep.evals += 1;
                if eng_pos_string(&nb) != ref_pos_string(&np) {   // (the two move counters are not part of C02's statement: not compared)
                    rep.violation = Some(format!("{{\"input\": {{\"fen\": {}, \"move\": {}}}, \"real\": {}, \"expected\": {}}}", jstr(&fen), jstr(&u), jstr(&eng_pos_string(&nb)), jstr(&ref_pos_string(&np))));
                    return rep.finish();
                }
            }
        }
        if what == "all" || what == "quiescence" {
            if !in_check(p, p.stm) {
                let q: BTreeSet<String> = mg.generate_quiescence_moves(&b).iter().map(|m| m.to_algebraic()).collect();
                let expect: BTreeSet<String> = legal_moves(p).into_iter().filter(|m| {
                    let cap = p.sq[m.to as usize].is_some() || (p.sq[m.from as usize].map(|x| x.1) == Some(Pc::P) && Some(m.to) == p.ep && m.from % 8 != m.to % 8);
                    cap || m.promo.is_some() || in_check(&apply(p, *m), p.stm.other())
                }).map(|m| m.uci()).collect();
                if q != expect {
                    rep.violation = Some(format!("{{\"input\": {{\"fen\": {}}}, \"real\": {{\"missing\": {:?}, \"extra\": {:?}}}, \"expected\": \"captures (incl. ep), promotions, checks\"}}", jstr(&fen),
                                                 expect.difference(&q).collect::<Vec<_>>(), q.difference(&expect).collect::<Vec<_>>()));
                    return rep.finish();
                }
            }
        }
        rep.distinct += 1;
        if rep.samples.len() < 6 && rep.distinct % 97 == 1 { rep.sample(jstr(&fen)); }
    }
    rep.finish()
}

// ------------------------------------------------------------------------------------------------ C15
fn tt_seq(args: &[String]) -> i32 {
    let len = num_arg(args, "len", 4);
    let mut rep = Report::new("tt-seq", &format!("all store/retrieve sequences of length <= {} over 2 keys (equal in their low 32 bits) x depths 1..3 x moves {{None, a, b}} (x 2 scores x 3 bounds on the last operation); oracle = the property as stated: a lookup returns nothing, or a record stored under that key that no later equal-or-deeper store superseded; a shallower store never displaces a retrievable deeper one; + a large table: --bulk distinct keys (default 1.3 million) stored once, all looked up, re-store probes", len));
    let mv_a = Move::new(8, 16, Piece::Pawn, MoveType::Quiet);
    let mv_b = Move::new(1, 18, Piece::Knight, MoveType::Quiet);
    let keys = [11u64, 0xFFFF_FFFF_0000_000Bu64];
    let moves = [None, Some(mv_a), Some(mv_b)];
    // an operation: (key idx, depth, move idx, score, bound idx)
    let mut ops = Vec::new();
    for k in 0..2 { for d in 1..=3u8 { for m in 0..3 { for s in [5i32, -7] { for b in 0..3 { ops.push((k, d, m, s, b)); } } } } }
    let bounds = [Bounds::Exact, Bounds::Lower, Bounds::Upper];
    // depth-first over sequences; with 108 ops and length 4 that is too many, so scores/bounds vary only on the last op
    let small: Vec<_> = ops.iter().cloned().filter(|o| o.3 == 5 && o.4 == 0).collect();
    fn rec(seq: &mut Vec<(usize, u8, usize, i32, usize)>, len: usize, small: &Vec<(usize, u8, usize, i32, usize)>, all: &Vec<(usize, u8, usize, i32, usize)>,
           keys: &[u64; 2], moves: &[Option<Move>; 3], bounds: &[Bounds; 3], rep: &mut Report) -> bool {
        // check this sequence against the property AS STATED (a lookup may always return nothing - a bounded table may evict):
        //  R2 what is returned for k is a record some earlier store put under exactly k;
        //  R1 it is not a record that a LATER store on k of equal or greater depth must have replaced (stale data);
        //  R3 storing a strictly shallower result over a retrievable deeper one leaves the deeper one (or nothing), never the shallower.
        let mut tt = TranspositionTable::new();
        let field = |o: &(usize, u8, usize, i32, usize)| (o.3, moves[o.2], o.1, o.4);
        for (n, o) in seq.iter().enumerate() {
            let before = tt.retrieve(keys[o.0]).map(|e| (e.eval, e.best_move, e.depth, match e.bounds { Bounds::Exact => 0usize, Bounds::Lower => 1, Bounds::Upper => 2 }));
            tt.store(keys[o.0], o.3, moves[o.2], o.1, bounds[o.4]);
            rep.evals += 1;
            for (ki, k) in keys.iter().enumerate() {
                let got = tt.retrieve(*k).map(|e| (e.eval, e.best_move, e.depth, match e.bounds { Bounds::Exact => 0usize, Bounds::Lower => 1, Bounds::Upper => 2 }, e.hash_key));
                let g = match got { None => continue, Some(g) => g };
                let rec4 = (g.0, g.1, g.2, g.3);
                // latest earlier store on this key with exactly these fields
                let src = (0..=n).rev().find(|&i| seq[i].0 == ki && field(&seq[i]) == rec4);
                let why = if g.4 != *k { Some("entry carries another key".to_string()) }
                    else if src.is_none() { Some("no store on this key ever put this record".to_string()) }
                    else if let Some(j) = ((src.unwrap() + 1)..=n).find(|&j| seq[j].0 == ki && seq[j].1 >= g.2) { Some(format!("stale: operation #{} stored an equal or deeper result for this key afterwards", j)) }
                    else if ki == o.0 && before.map(|b| b.2 > o.1).unwrap_or(false) && rec4 == field(o) && before != Some(rec4) { Some("a shallower result replaced a deeper one".to_string()) }
                    else { None };
                if let Some(w) = why {
                    rep.violation = Some(format!("{{\"input\": {{\"ops (key index, depth, move index [0=None,1=a,2=b], score, bound)\": {}, \"lookup_key\": {}}}, \"real\": {}, \"expected\": {}}}", jstr(&format!("{:?}", &seq[..=n])), k, jstr(&format!("{:?}", got)), jstr(&format!("nothing, or the record most recently accepted for this key ({})", w))));
                    return true;
                }
            }
        }
        rep.distinct += 1;
        if seq.len() >= len { return false; }
        let cands = if seq.len() + 1 == len { all } else { small };
        for o in cands.iter() {
            seq.push(*o);
            if rec(seq, len, small, all, keys, moves, bounds, rep) { return true; }
            seq.pop();
        }
        false
    }
    let mut seq = Vec::new();
    if rec(&mut seq, len, &small, &ops, &keys, &moves, &bounds, &mut rep) { return rep.finish(); }
    rep.sample(jstr("store(k1,d2,Some(a)); store(k1,d2,None); retrieve(k1) == the second record"));
    // a LARGE table (what a long search builds): `bulk` distinct keys stored once each, then everything looked up again. Whatever
    // housekeeping a table of that size triggers (eviction is allowed), a lookup returns nothing or exactly the one record ever
    // stored under that key; then, for keys still present, a strictly shallower store must not displace the record, an equal-depth
    // store must replace it (or leave nothing).
    let bulk = num_arg(args, "bulk", 1_300_000) as u64;
    let key_of = |i: u64| i.wrapping_mul(0x9E37_79B9_7F4A_7C15) ^ (i << 32) ^ 0x5851_F42D_4C95_7F2D;
    let rec_of = |i: u64| ((i % 2001) as i32 - 1000, if i % 3 == 0 { None } else if i % 3 == 1 { Some(mv_a) } else { Some(mv_b) }, (1 + i % 40) as u8, (i % 3) as usize);
    let mut tt = TranspositionTable::new();
    for i in 0..bulk { let r = rec_of(i); tt.store(key_of(i), r.0, r.1, r.2, bounds[r.3]); }
    rep.evals += bulk;
    let bidx = |b: &Bounds| match b { Bounds::Exact => 0usize, Bounds::Lower => 1, Bounds::Upper => 2 };
    let mut present = 0u64;
    for i in 0..bulk {
        if let Some(e) = tt.retrieve(key_of(i)) {
            present += 1;
            let r = rec_of(i);
            if e.hash_key != key_of(i) || (e.eval, e.best_move, e.depth, bidx(&e.bounds)) != r {
                rep.violation = Some(format!("{{\"input\": {{\"what\": \"{} distinct keys key_of(i) stored once each with rec_of(i) (see replay/src/cmds.rs tt_seq), then lookup of key #{}\"}}, \"real\": {}, \"expected\": {}}}", bulk, i,
                    jstr(&format!("key {} eval {} move {:?} depth {} bound {}", e.hash_key, e.eval, e.best_move.map(|m| m.to_algebraic()), e.depth, bidx(&e.bounds))), jstr(&format!("nothing, or the one record ever stored under this key: eval {} move {:?} depth {} bound {}", r.0, r.1.map(|m| m.to_algebraic()), r.2, r.3))));
                return rep.finish();
            }
        }
    }
    let mut checked = 0;
    for i in (0..bulk).rev().step_by(997) {
        let k = key_of(i);
        let cur = match tt.retrieve(k) { Some(e) => (e.eval, e.depth), None => continue };
        if cur.1 >= 2 {
            tt.store(k, 31_000, None, cur.1 - 1, Bounds::Exact);
            if let Some(e) = tt.retrieve(k) { if (e.eval, e.depth) != cur {
                rep.violation = Some(format!("{{\"input\": {{\"what\": \"after {} distinct keys: key #{} holds depth {}, then store at depth {}\"}}, \"real\": {}, \"expected\": \"a shallower result never replaces a deeper one\"}}", bulk, i, cur.1, cur.1 - 1, jstr(&format!("eval {} depth {}", e.eval, e.depth))));
                return rep.finish();
            } }
        }
        tt.store(k, -31_000, None, cur.1, Bounds::Lower);
        if let Some(e) = tt.retrieve(k) { if (e.eval, e.depth) != (-31_000, cur.1) {
            rep.violation = Some(format!("{{\"input\": {{\"what\": \"after {} distinct keys: key #{} holds depth {}, then store at the same depth\"}}, \"real\": {}, \"expected\": \"an equal-depth result replaces the old one\"}}", bulk, i, cur.1, jstr(&format!("eval {} depth {}", e.eval, e.depth))));
            return rep.finish();
        } }
        checked += 1;
    }
    rep.sample(jstr(&format!("bulk: {} keys stored, {} still present, {} re-store probes", bulk, present, checked)));
    rep.finish()
}

// ------------------------------------------------------------------------------------------------ C11
fn hash_components(args: &[String]) -> i32 {
    let seed = seed_arg(args);
    let mut rep = Report::new("hash-components", &format!("3 key draws x (16x16 castling-right subsets, ep squares, side to move, single-square changes, counters, transpositions; hash contributions of all 613 single features (592 man-on-square, 16 en-passant targets, 4 rights, side to move) pairwise distinct and non-zero) on corpus positions (seed {})", seed));
    for _draw in 0..3 {
        let z = ZobristTable::new();
        // all subsets of castling rights on a position where all four are consistent
        let base = "r3k2r/8/8/8/8/8/8/R3K2R w";
        let mut hashes: Vec<(String, u64)> = Vec::new();
        for mask in 0..16 {
            let mut c = String::new();
            if mask & 1 != 0 { c.push('K'); } if mask & 2 != 0 { c.push('Q'); } if mask & 4 != 0 { c.push('k'); } if mask & 8 != 0 { c.push('q'); }
            if c.is_empty() { c.push('-'); }
            let fen = format!("{} {} - 0 1", base, c);
            hashes.push((fen.clone(), z.hash(&Board::new(&fen))));
        }
        for i in 0..16 { for j in (i + 1)..16 {
            rep.evals += 1;
            if hashes[i].1 == hashes[j].1 {
                rep.violation = Some(format!("{{\"input\": {{\"fen_a\": {}, \"fen_b\": {}}}, \"real\": \"equal hashes\", \"expected\": \"different positions (castling rights differ) hash differently\"}}", jstr(&hashes[i].0), jstr(&hashes[j].0)));
                return rep.finish();
            }
        } }
        // counters do not matter; side to move, ep square and single-square changes do
        for p in corpus(seed, 40, 30).iter().take(200) {
            let f0 = to_fen(p);
            let h0 = z.hash(&Board::new(&f0));
            let f_cnt = f0.replace(" 0 1", " 37 99");
            rep.evals += 1;
            if z.hash(&Board::new(&f_cnt)) != h0 {
                rep.violation = Some(format!("{{\"input\": {{\"fen_a\": {}, \"fen_b\": {}}}, \"real\": \"different hashes\", \"expected\": \"same position, different counters: same hash\"}}", jstr(&f0), jstr(&f_cnt)));
                return rep.finish();
            }
            let mut q = p.clone(); q.stm = q.stm.other(); q.ep = None;
            let mut p0 = p.clone(); p0.ep = None;
            rep.evals += 1;
            if z.hash(&eng_board(&q)) == z.hash(&eng_board(&p0)) {
                rep.violation = Some(format!("{{\"input\": {{\"fen_a\": {}, \"fen_b\": {}}}, \"real\": \"equal hashes\", \"expected\": \"side to move differs: different hash\"}}", jstr(&to_fen(&p0)), jstr(&to_fen(&q))));
                return rep.finish();
            }
            // change one square: remove one non-king man
            for s in 0..64 {
                if let Some((_, pc)) = p0.sq[s] {
                    if pc == Pc::K { continue; }
                    let mut r = p0.clone(); r.sq[s] = None; r.wk = false; r.wq = false; r.bk = false; r.bq = false;
                    let mut p1 = p0.clone(); p1.wk = false; p1.wq = false; p1.bk = false; p1.bq = false;
                    rep.evals += 1;
                    if z.hash(&eng_board(&r)) == z.hash(&eng_board(&p1)) {
                        rep.violation = Some(format!("{{\"input\": {{\"fen_a\": {}, \"fen_b\": {}}}, \"real\": \"equal hashes\", \"expected\": \"one man removed: different hash\"}}", jstr(&to_fen(&p1)), jstr(&to_fen(&r))));
                        return rep.finish();
                    }
                    break;
                }
            }
            rep.distinct += 1;
        }
        // ep squares
        let fa = "4k3/8/8/8/3pP3/8/8/4K3 b - e3 0 1"; let fb = "4k3/8/8/8/3pP3/8/8/4K3 b - - 0 1";
        rep.evals += 1;
        if z.hash(&Board::new(fa)) == z.hash(&Board::new(fb)) {
            rep.violation = Some(format!("{{\"input\": {{\"fen_a\": {}, \"fen_b\": {}}}, \"real\": \"equal hashes\", \"expected\": \"ep square differs: different hash\"}}", jstr(fa), jstr(fb)));
            return rep.finish();
        }
        // cross-kind pairs: the hash contribution of every single feature (a man of either colour on a square, an en-passant
        // target on a square, a castling right, the side to move) must be non-zero and pairwise different - two features with
        // the same contribution give two DIFFERENT positions with the SAME hash (base + A vs base + B), for this key draw
        {
            let bare = |stm: Col| -> RPos { let mut p = RPos { sq: [None; 64], stm, wk: false, wq: false, bk: false, bq: false, ep: None }; p.sq[4] = Some((Col::W, Pc::K)); p.sq[60] = Some((Col::B, Pc::K)); p };
            let h = |p: &RPos| z.hash(&eng_board(p));
            let mut feats: Vec<(String, u64)> = Vec::new();
            let base_w = bare(Col::W);
            let hb = h(&base_w);
            for c in [Col::W, Col::B] { for pc in [Pc::P, Pc::N, Pc::B, Pc::R, Pc::Q] { for s in 0..64usize {
                if s == 4 || s == 60 { continue; }
                if pc == Pc::P && (s < 8 || s >= 56) { continue; }
                let mut p = base_w.clone(); p.sq[s] = Some((c, pc));
                feats.push((format!("{:?} {:?} on square {}", c, pc, s), h(&p) ^ hb));
            } } }
            feats.push(("side to move".into(), h(&bare(Col::B)) ^ hb));
            // castling rights on a board where all four are consistent
            let rb = parse_fen("r3k2r/8/8/8/8/8/8/R3K2R w - - 0 1").unwrap();
            let hr = h(&rb);
            for (i, nm) in ["K", "Q", "k", "q"].iter().enumerate() {
                let mut p = rb.clone(); match i { 0 => p.wk = true, 1 => p.wq = true, 2 => p.bk = true, _ => p.bq = true }
                feats.push((format!("castling right {}", nm), h(&p) ^ hr));
            }
            // en-passant targets: black to move after a white double push to rank 4 (target on rank 3), and the mirror
            for f in 0..8usize {
                let mut p = bare(Col::B); p.sq[24 + f] = Some((Col::W, Pc::P));
                let h0 = h(&p); p.ep = Some((16 + f) as u8);
                feats.push((format!("en-passant target on square {}", 16 + f), h(&p) ^ h0));
                let mut q = bare(Col::W); q.sq[32 + f] = Some((Col::B, Pc::P));
                let h1 = h(&q); q.ep = Some((40 + f) as u8);
                feats.push((format!("en-passant target on square {}", 40 + f), h(&q) ^ h1));
            }
            let mut seen: HashMap<u64, usize> = HashMap::new();
            for (i, (nm, d)) in feats.iter().enumerate() {
                rep.evals += 1;
                if *d == 0 {
                    rep.violation = Some(format!("{{\"input\": {{\"feature\": {}}}, \"real\": \"adding it leaves the hash unchanged\", \"expected\": \"a different position hashes differently\"}}", jstr(nm)));
                    return rep.finish();
                }
                if let Some(j) = seen.insert(*d, i) {
                    rep.violation = Some(format!("{{\"input\": {{\"feature_a\": {}, \"feature_b\": {}}}, \"real\": \"both change the hash by the same amount: base+a and base+b are different positions with equal hash, for every such base\", \"expected\": \"different positions hash differently\"}}", jstr(&feats[j].0), jstr(nm)));
                    return rep.finish();
                }
            }
        }
        // transposition: two move orders into the same position
        let mg = MoveGenerator::new();
        let play = |moves: &[&str]| -> Board {
            let mut b = Board::default();
            for u in moves { let ms = mg.generate_moves(&b); let m = ms.iter().find(|m| m.to_algebraic() == *u).expect("move"); b.make_move(m); }
            b
        };
        let b1 = play(&["g1f3", "g8f6", "b1c3", "b8c6"]); let b2 = play(&["b1c3", "b8c6", "g1f3", "g8f6"]);
        rep.evals += 1;
        if z.hash(&b1) != z.hash(&b2) {
            rep.violation = Some("{\"input\": {\"moves_a\": \"g1f3 g8f6 b1c3 b8c6\", \"moves_b\": \"b1c3 b8c6 g1f3 g8f6\"}, \"real\": \"different hashes\", \"expected\": \"same position reached by two move orders: same hash\"}".into());
            return rep.finish();
        }
    }
    rep.sample(jstr("r3k2r/8/8/8/8/8/8/R3K2R w Qk - 0 1  vs  ... w - - 0 1"));
    rep.finish()
}

// ------------------------------------------------------------------------------------------------ C12
fn budget(_args: &[String]) -> i32 {
    let mut rep = Report::new("budget", "grid: clock,inc in {0,1,2,49,50,999,1000,4999,5000,5001,60000,3600000, 2^40} x opponent values x 24 token orders x 2 colours; + each clock pair with movestogo 1/2/40, nodes, ponder, mate before or after the clocks (bound only); + sessions: an earlier go (depth-limited, on long / short clocks, once or twice) then a clocked go - the budget the search is armed with, through the real handler");
    let vals: [u64; 13] = [0, 1, 2, 49, 50, 999, 1000, 4999, 5000, 5001, 60000, 3_600_000, 1 << 40];
    let opp: [(u64, u64); 3] = [(0, 0), (3_600_000, 0), (7, 1 << 40)];
    let orders: Vec<Vec<usize>> = { let mut v = Vec::new(); let idx = [0usize, 1, 2, 3];
        for a in 0..4 { for b in 0..4 { for c in 0..4 { for d in 0..4 { let o = vec![idx[a], idx[b], idx[c], idx[d]]; let s: HashSet<_> = o.iter().collect(); if s.len() == 4 { v.push(o); } } } } } v };
    for white in [true, false] {
        let mut fl = Flounder::new();
        fl.verif_handle_command(if white { "position startpos" } else { "position startpos moves e2e4" });
        for &t in &vals { for &inc in &vals {
            let mut first: Option<u128> = None;
            for &(ot, oi) in &opp { for o in &orders {
                let (wt, wi, bt, bi) = if white { (t, inc, ot, oi) } else { (ot, oi, t, inc) };
                let toks = [format!("wtime {}", wt), format!("btime {}", bt), format!("winc {}", wi), format!("binc {}", bi)];
                let cmd = format!("go {} {} {} {}", toks[o[0]], toks[o[1]], toks[o[2]], toks[o[3]]);
                let b = fl.verif_go_budget(&cmd).map(|d| d.as_millis());
                rep.evals += 1;
                let ms = match b { Some(ms) => ms, None => { rep.violation = Some(format!("{{\"input\": {{\"cmd\": {}, \"white_to_move\": {}}}, \"real\": \"no budget\", \"expected\": \"a budget\"}}", jstr(&cmd), white)); return rep.finish(); } };
                let bad_bound = ms > t as u128 || (t > 0 && ms >= t as u128);
                let bad_dep = first.map(|f| f != ms).unwrap_or(false);
                if bad_bound || bad_dep {
                    rep.violation = Some(format!("{{\"input\": {{\"cmd\": {}, \"white_to_move\": {}}}, \"real\": {{\"budget_ms\": {}}}, \"expected\": {}}}", jstr(&cmd), white, ms,
                        jstr(&if bad_bound { format!("budget <= own clock {} and < it when > 0", t) } else { format!("same budget {} as with other opponent values / token order", first.unwrap()) })));
                    return rep.finish();
                }
                first = Some(ms);
            } }
            // other legitimate `go` arguments before or after the clocks may refine the allocation but never lift it over the clock
            for extra in ["movestogo 1", "movestogo 2", "movestogo 40", "nodes 100000", "ponder", "mate 3"] { for front in [false, true] {
                let (wt, wi, bt, bi) = if white { (t, inc, 60000, 0) } else { (60000, 0, t, inc) };
                let clocks = format!("wtime {} btime {} winc {} binc {}", wt, bt, wi, bi);
                let cmd = if front { format!("go {} {}", extra, clocks) } else { format!("go {} {}", clocks, extra) };
                let b = fl.verif_go_budget(&cmd).map(|d| d.as_millis());
                rep.evals += 1;
                if let Some(ms) = b { if ms > t as u128 || (t > 0 && ms >= t as u128) {
                    rep.violation = Some(format!("{{\"input\": {{\"cmd\": {}, \"white_to_move\": {}}}, \"real\": {{\"budget_ms\": {}}}, \"expected\": {}}}", jstr(&cmd), white, ms,
                        jstr(&format!("budget <= own clock {} and < it when > 0", t))));
                    return rep.finish();
                } }
            } }
            rep.distinct += 1;
        } }
    }
    rep.sample(jstr("go wtime 100 btime 3600000 winc 5000 binc 0 (white to move)"));
    // Through the real `go` handler, in SESSIONS: what the search is armed with (Searcher::verif_time_limit, the value handed to
    // find_best_move) must fit in the mover's clock whatever was searched before - an earlier `go` that ended early, on a long
    // or a short clock, for either side. (Depth-one searches, so that every `go` of the session returns at once.)
    let firsts = ["go depth 1 wtime 60000 btime 60000 winc 0 binc 0", "go depth 1 wtime 3600000 btime 3600000 winc 30000 binc 30000", "go depth 1 movetime 5000", "go depth 2"];
    let seconds: [(u64, u64); 6] = [(300, 0), (800, 0), (1, 0), (5000, 0), (100, 5000), (60000, 1000)];
    for white in [true, false] { for first in firsts { for twice in [false, true] { for &(t, inc) in &seconds {
        let mut fl = Flounder::new();
        fl.verif_handle_command(if white { "position startpos" } else { "position startpos moves e2e4" });
        fl.verif_handle_command(first);
        if twice { fl.verif_handle_command(first); }
        let cmd = format!("go depth 1 wtime {} btime {} winc {} binc {}", if white { t } else { 7 }, if white { 7 } else { t }, if white { inc } else { 0 }, if white { 0 } else { inc });
        fl.verif_handle_command(&cmd);
        rep.evals += 1;
        let armed = fl.verif_searcher().verif_time_limit().map(|d| d.as_millis());
        let bad = match armed { Some(ms) => ms > t as u128 || (t > 0 && ms >= t as u128), None => true };
        if bad {
            rep.violation = Some(format!("{{\"input\": {{\"session\": [{}{}, {}], \"white_to_move\": {}}}, \"real\": {{\"search_armed_with_ms\": {}}}, \"expected\": {}}}",
                jstr(first), if twice { format!(", {}", jstr(first)) } else { String::new() }, jstr(&cmd), white,
                armed.map(|m| m.to_string()).unwrap_or("null".into()), jstr(&format!("a budget <= own clock {} and < it when > 0", t))));
            return rep.finish();
        }
    } } } }
    rep.finish()
}

// ------------------------------------------------------------------------------------------------ C06
/// interrupt a search at every node count 1..N, then search the same position to completion on the same searcher and
/// compare with a fresh searcher; the repetition stack must be as before
fn search_interrupt(args: &[String]) -> i32 {
    let depth = num_arg(args, "depth", 3) as u8;
    let maxn = num_arg(args, "maxnodes", 400) as u64;
    let fens: Vec<String> = match str_arg(args, "fen") { Some(f) => vec![f.to_string()], None => vec![
        "8/8/8/4k3/8/8/4K3/8 w - - 0 1".into(), "8/8/4k3/8/2p5/8/B2P2K1/8 w - - 0 1".into(), "7k/8/5K2/6Q1/8/8/8/8 w - - 0 1".into(),
        "4k3/8/8/8/3pP3/8/8/4K3 b - e3 0 1".into(), "6k1/5ppp/8/8/8/8/8/R3K3 w Q - 0 1".into()] };
    let mut rep = Report::new("search-interrupt", &format!("{} positions x every node limit 1..{} x completed depth-{} search afterwards", fens.len(), maxn, depth));
    for fen in &fens {
        let board = Board::new(fen);
        verif_hook::set_node_limit(None);
        let maxd = depth.max(4);
        // values a completed search of depth d may legitimately report: the depth-d value, or that of a deeper search whose
        // result is still cached (the engine reuses entries of depth >= d by design)
        let truth: Vec<i32> = (1..=maxd).map(|d| Searcher::new().find_best_move(&board, d, None).0).collect();
        for n in 1..=maxn {
            for dd in 1..=depth {
                let mut s = Searcher::new();
                let rep_before = s.verif_repetition_len();
                verif_hook::set_node_limit(Some(n));
                let _ = s.find_best_move(&board, maxd, Some(std::time::Duration::from_secs(3600)));
                verif_hook::set_node_limit(None);
                let rep_after = s.verif_repetition_len();
                let again = s.find_best_move(&board, dd, None);
                rep.evals += 1;
                if rep_after != rep_before || !truth[(dd as usize - 1)..].contains(&again.0) {
                    rep.violation = Some(format!("{{\"input\": {{\"fen\": {}, \"interrupt_at_node\": {}, \"then_depth\": {}}}, \"real\": {{\"score\": {}, \"repetition_len_after\": {}}}, \"expected\": {{\"score\": {}, \"repetition_len_after\": {}}}}}",
                        jstr(fen), n, dd, again.0, rep_after, jstr(&format!("one of {:?}", &truth[(dd as usize - 1)..])), rep_before));
                    return rep.finish();
                }
            }
            rep.distinct += 1;
        }
        rep.sample(jstr(fen));
    }
    rep.finish()
}

// ------------------------------------------------------------------------------------------------ C03
fn bestmove(args: &[String]) -> i32 {
    let seed = seed_arg(args);
    let mut rep = Report::new("bestmove", &format!("corpus positions (seed {}) x node limits {{0,1,2,3,5,17,200}} x depth {{2,3,64}}, plus unlimited depth 1..2 where the position has <= 12 men and no pawn about to promote; one searcher reused across all positions; + 18 starts with a castling or en-passant move in reach: depth-4 search, then depth 1..2 on every special-move neighbour of every node within two plies, same searcher", seed));
    let walks = num_arg(args, "walks", 60);
    let mut s = Searcher::new();
    for p in corpus(seed, walks, 30).iter() {
        let fen = to_fen(p);
        let board = eng_board(p);
        let legal: BTreeSet<String> = legal_moves(p).iter().map(|m| m.uci()).collect();
        // searches without a node limit only where the quiescence tree is small (few men, no pawn about to promote): the
        // point of this check is the budget-exhausted cases and the reuse of one searcher across positions
        let men = p.sq.iter().filter(|x| x.is_some()).count();
        let promo_race = (8..16).any(|i| p.sq[i] == Some((Col::B, Pc::P))) || (48..56).any(|i| p.sq[i] == Some((Col::W, Pc::P)));
        let unlimited_ok = men <= 12 && !promo_race;
        for (lim, depth) in [(Some(0u64), 64u8), (Some(1), 64), (Some(2), 2), (Some(3), 64), (Some(5), 2), (Some(17), 64), (Some(200), 3), (None, 1), (None, 2)] {
            if lim.is_none() && !unlimited_ok { continue; }
            verif_hook::set_node_limit(lim);
            let r = s.find_best_move(&board, depth, lim.map(|_| std::time::Duration::from_secs(3600)));
            verif_hook::set_node_limit(None);
            rep.evals += 1;
            let ok = match r.1 { Some(m) => legal.contains(&m.to_algebraic()), None => legal.is_empty() };
            if !ok {
                rep.violation = Some(format!("{{\"input\": {{\"fen\": {}, \"node_limit\": {}, \"depth\": {}}}, \"real\": {{\"bestmove\": {}}}, \"expected\": \"a legal move iff one exists\"}}",
                    jstr(&fen), lim.map(|x| x.to_string()).unwrap_or("null".into()), depth, jstr(&r.1.map(|m| m.to_algebraic()).unwrap_or("0000".into()))));
                return rep.finish();
            }
        }
        rep.distinct += 1;
        if rep.distinct % 50 == 1 { rep.sample(jstr(&fen)); }
    }
    // "whatever it searched earlier in the same process": positions that differ from a node of an earlier search only by the
    // secondary effect of a special move (the castling rook back in its corner, the pawn taken en passant back on its square).
    // One searcher per start: search the start to depth 4, then ask for a move in every such neighbour of every node within two
    // plies whose path contains the special move; the answer must be legal there.
    let special_starts = ["r3k2r/8/8/8/8/8/8/R3K2R w KQkq - 0 1", "r3k2r/8/8/8/8/8/8/R3K2R b KQkq - 0 1", "4k3/8/8/8/8/8/PPP2PPP/R3K2R w KQ - 0 1",
        "r3k2r/ppp2ppp/8/8/8/8/8/4K3 b kq - 0 1", "6k1/5ppp/8/8/8/8/8/R3K3 w Q - 0 1", "8/8/8/8/8/8/6k1/4K2R w K - 0 1", "4k2r/6K1/8/8/8/8/8/8 b k - 0 1",
        "2k5/8/8/8/8/2b5/7P/4K2R w K - 0 1", "r3k3/p7/5B2/8/8/8/8/3K4 b q - 0 1", "6rk/6pp/8/8/8/1B6/8/4K2R w K - 0 1", "r3k3/8/1b6/8/8/8/PP6/KR6 b q - 0 1",
        "4k3/8/8/8/3pP3/8/8/4K3 b - e3 0 1", "4k3/8/8/8/1p6/8/P7/4K3 w - - 0 1", "4k3/p7/8/1P6/8/8/8/4K3 b - - 0 1",
        // the castled rook's own move is the principal variation (back-rank mates), all four castles
        "7k/p6p/7P/8/8/1B6/8/4K2R w K - 0 1", "k7/p6p/P7/8/8/6B1/8/R3K3 w Q - 0 1", "4k2r/8/1b6/8/8/7p/P6P/7K b k - 0 1", "r3k3/8/6b1/8/8/p7/P6P/K7 b q - 0 1"];
    for f in special_starts {
        let Some(p0) = parse_fen(f) else { continue };
        if !valid(&p0) { continue; }
        let mut s = Searcher::new();
        let _ = s.find_best_move(&eng_board(&p0), 4, None);
        rep.evals += 1;
        // nodes within two plies, with the aliases their path gives rise to
        let mut frontier: Vec<(RPos, Vec<(usize, usize, Col, Pc)>)> = vec![(p0.clone(), Vec::new())];   // (position, [(restore square, clear square, colour, piece)])
        let mut aliases: Vec<(RPos, String)> = Vec::new();
        for _ply in 0..2 {
            let mut next = Vec::new();
            for (p, fix) in frontier.iter() {
                for m in legal_moves(p) {
                    let q = apply(p, m);
                    let mut fx = fix.clone();
                    let (fr, to) = (m.from as usize, m.to as usize);
                    if let Some((c, Pc::K)) = p.sq[fr] {
                        if (fr as i32 - to as i32).abs() == 2 {
                            let (corner, landed) = if to > fr { (fr + 3, fr + 1) } else { (fr - 4, fr - 1) };
                            fx.push((corner, landed, c, Pc::R));
                        }
                    }
                    if let Some((c, Pc::P)) = p.sq[fr] {
                        if Some(m.to) == p.ep && fr % 8 != to % 8 { let cap = if c == Col::W { to - 8 } else { to + 8 }; fx.push((cap, cap, c.other(), Pc::P)); }
                    }
                    for (restore, clear, c, pc) in fx.iter() {
                        let mut a = q.clone();
                        if *clear != *restore { if a.sq[*clear] != Some((*c, *pc)) { continue; } a.sq[*clear] = None; }
                        if a.sq[*restore].is_some() { continue; }
                        a.sq[*restore] = Some((*c, *pc));
                        a.ep = None;
                        if valid(&a) { aliases.push((a, format!("{} then {}", f, m.uci()))); }
                    }
                    next.push((q, fx));
                }
            }
            frontier = next;
        }
        for (a, how) in aliases.iter() {
            let legal: BTreeSet<String> = legal_moves(a).iter().map(|m| m.uci()).collect();
            let board = eng_board(a);
            for depth in [1u8, 2] {
                let r = s.find_best_move(&board, depth, None);
                rep.evals += 1;
                let ok = match r.1 { Some(m) => legal.contains(&m.to_algebraic()), None => legal.is_empty() };
                if !ok {
                    rep.violation = Some(format!("{{\"input\": {{\"searched_before_with_the_same_searcher\": {{\"fen\": {}, \"depth\": 4}}, \"fen\": {}, \"depth\": {}, \"neighbour_of_node_after\": {}}}, \"real\": {{\"bestmove\": {}}}, \"expected\": \"a legal move iff one exists\"}}",
                        jstr(f), jstr(&to_fen(a)), depth, jstr(how), jstr(&r.1.map(|m| m.to_algebraic()).unwrap_or("0000".into()))));
                    return rep.finish();
                }
            }
        }
        rep.distinct += 1;
    }
    rep.finish()
}

/// C03 at the process level: the real `uci_loop` (this binary run as a child with the command `uci-loop`, i.e. the real
/// handle_command / handle_go_command and their println! lines) driven over pipes. After every `go` an `isready` follows;
/// between the `go` and the `readyok` there must be exactly one line starting with `bestmove`, naming a legal move of the
/// position last set (or 0000 iff there is none).
fn uci_session(args: &[String]) -> i32 {
    use std::io::{BufRead, BufReader, Write};
    use std::process::{Command, Stdio};
    let seed = seed_arg(args);
    let n = num_arg(args, "positions", 40);
    let mut rep = Report::new("uci-session", &format!("{} corpus positions (seed {}, <= 12 men, no pawn about to promote) + stalemate/checkmate positions, each x {{go depth 1, go depth 2, go movetime 0, go wtime 40 btime 40, go depth 1 after an earlier go on another position}} through the real uci_loop over pipes", n, seed));
    let exe = std::env::current_exe().expect("exe");
    let mut child = Command::new(exe).arg("uci-loop").stdin(Stdio::piped()).stdout(Stdio::piped()).stderr(Stdio::null()).spawn().expect("spawn");
    let mut cin = child.stdin.take().unwrap();
    let cout = child.stdout.take().unwrap();
    let (tx, rx) = std::sync::mpsc::channel::<String>();
    std::thread::spawn(move || { for l in BufReader::new(cout).lines() { if let Ok(l) = l { if tx.send(l).is_err() { break; } } else { break; } } });
    let small = |p: &RPos| p.sq.iter().filter(|x| x.is_some()).count() <= 12 && !(8..16).any(|i| p.sq[i] == Some((Col::B, Pc::P))) && !(48..56).any(|i| p.sq[i] == Some((Col::W, Pc::P)));
    let mut positions: Vec<RPos> = ["7k/5Q2/6K1/8/8/8/8/8 b - - 0 1", "7k/6Q1/6K1/8/8/8/8/8 b - - 0 1", "k7/8/1K6/8/8/8/8/7R w - - 0 1"].iter().filter_map(|f| parse_fen(f)).collect();
    positions.extend(corpus(seed, 40, 24).into_iter().filter(|p| small(p)).take(n));
    let gos = ["go depth 1", "go depth 2", "go movetime 0", "go wtime 40 btime 40 winc 0 binc 0", "go depth 1"];
    let mut finish = |rep: Report, child: &mut std::process::Child, cin: &mut std::process::ChildStdin| { let _ = cin.write_all(b"quit\n"); let _ = cin.flush(); let _ = child.kill(); let _ = child.wait(); rep.finish() };
    for (pi, p) in positions.iter().enumerate() {
        let fen = to_fen(p);
        let legal: BTreeSet<String> = legal_moves(p).iter().map(|m| m.uci()).collect();
        for (gi, go) in gos.iter().enumerate() {
            let mut script = String::new();
            if gi == 4 { script.push_str("position startpos moves e2e4\ngo depth 2\n"); }
            script.push_str(&format!("position fen {}\n{}\nisready\n", fen, go));
            if cin.write_all(script.as_bytes()).is_err() || cin.flush().is_err() {
                rep.violation = Some(format!("{{\"input\": {{\"script\": {}}}, \"real\": \"the engine process is gone\", \"expected\": \"one bestmove line\"}}", jstr(&script)));
                return finish(rep, &mut child, &mut cin);
            }
            let mut best: Vec<String> = Vec::new();
            let mut timed_out = false;
            loop {
                match rx.recv_timeout(std::time::Duration::from_secs(60)) {
                    Ok(l) => { if l.trim() == "readyok" { break; } if l.starts_with("bestmove") { best.push(l); } }
                    Err(_) => { timed_out = true; break; }
                }
            }
            rep.evals += 1;
            // the earlier `go` of round 4 answers with a line of its own
            let mine: Vec<String> = if gi == 4 && !best.is_empty() { best[1..].to_vec() } else { best.clone() };
            let ok = !timed_out && mine.len() == 1 && (gi != 4 || best.len() == 2) && {
                let toks: Vec<&str> = mine[0].split_whitespace().collect();
                toks.len() == 2 && (if legal.is_empty() { toks[1] == "0000" } else { legal.contains(toks[1]) })
            };
            if !ok {
                rep.violation = Some(format!("{{\"input\": {{\"script\": {}}}, \"real\": {{\"bestmove_lines\": {:?}, \"timed_out\": {}}}, \"expected\": \"exactly one bestmove line per go, naming a legal move of the position last set (0000 iff none)\"}}", jstr(&script), best, timed_out));
                return finish(rep, &mut child, &mut cin);
            }
        }
        rep.distinct += 1;
        if pi % 15 == 0 { rep.sample(jstr(&fen)); }
    }
    finish(rep, &mut child, &mut cin)
}

// ------------------------------------------------------------------------------------------------ C16
/// C16 (bounded, process level): scripted sessions through the real `uci_loop` in a child process (the same two statements as
/// `main`): the bytes on stdout - `info` lines removed, the move of a `bestmove` line not compared - must be exactly the replies
/// the protocol prescribes, line by line; unknown, blank and malformed lines produce nothing; the process ends with status 0 on
/// `quit` and at end of input, within a time limit.
fn uci_process(args: &[String]) -> i32 {
    use std::io::{Read, Write};
    use std::process::{Command, Stdio};
    let seed = seed_arg(args);
    let n = num_arg(args, "sessions", 40);
    let maxlen = num_arg(args, "lines", 14);
    let wait_s = num_arg(args, "wait", 20) as u64;
    let mut rep = Report::new("uci-process", &format!("the empty session, the four single-command sessions and {} pseudo-random sessions (seed {}) of <= {} lines over a vocabulary of known commands, unknown UCI commands (stop, debug, setoption, register, ponderhit), garbage, blank and white-space lines, a line that is not valid UTF-8 (shown as <INVALID-UTF8>), wrong-case commands; + 6 sessions of long lines with multi-byte characters at every byte offset after debug on / debug off / a setoption; each ended by quit or by end of input; stdout compared line by line, exit status 0 within {} s", n, seed, maxlen, wait_s));
    let vocab = ["uci", "isready", "ucinewgame", "", "   ", "\t", "stop", "debug on", "setoption name Hash value 16", "register later", "ponderhit",
        "xyzzy", "hello world 1 2 3", "UCI", "IsReady", "isready now", "  isready  ", "uci\tuci", "quitt", "position", "position startpos",
        "position startpos moves e2e4 e7e5", "go depth 1", "go depth 2", "position fen 7k/5Q2/6K1/8/8/8/8/8 b - - 0 1", "go movetime 0", "bestmove e2e4", "readyok", "uciok", "id name x",
        "position fen", "position fen 8/8 w", "<INVALID-UTF8>", "\u{00e9}\u{00e8} \u{4e2d}"];
    let mut rng = seed.wrapping_mul(0x9E3779B97F4A7C15) | 1;
    let mut next = |m: usize| -> usize { rng ^= rng << 13; rng ^= rng >> 7; rng ^= rng << 17; (rng % m as u64) as usize };
    let mut sessions: Vec<(Vec<String>, bool)> = vec![(vec![], false), (vec![], true), (vec!["uci".into()], false), (vec!["isready".into()], false),
        (vec!["ucinewgame".into()], false), (vec!["nonsense".into()], false), (vec!["uci".into(), "isready".into()], true), (vec!["<INVALID-UTF8>".into(), "isready".into()], false)];
    // long lines with multi-byte characters at every byte offset (unknown commands, and arguments of known ones), after the
    // optional-protocol switches an engine may or may not implement: none of it may change what isready gets for an answer
    for pre in ["debug on", "debug off", "setoption name UCI_AnalyseMode value true"] {
        let mut lines: Vec<String> = vec![pre.to_string()];
        for pad in 0..44usize { lines.push(format!("setoption name F{} value \u{00fc}\u{4e2d}\u{00e9}\u{1f600} tail", "x".repeat(pad))); if pad % 11 == 10 { lines.push("isready".into()); } }
        lines.push("isready".into());
        sessions.push((lines, false));
        let mut l2: Vec<String> = vec![pre.to_string()];
        for pad in [0usize, 5, 13, 27, 31, 32, 33, 40] { l2.push(format!("{}\u{00e4}\u{00f6} unknown words \u{4e2d}\u{6587}", "y".repeat(pad))); }
        l2.push("isready".into());
        sessions.push((l2, true));
    }
    for _ in 0..n {
        let len = 1 + next(maxlen);
        let lines: Vec<String> = (0..len).map(|_| vocab[next(vocab.len())].to_string()).collect();
        sessions.push((lines, next(2) == 0));
    }
    let exe = std::env::current_exe().expect("exe");
    for (lines, quit) in sessions.iter() {
        let mut script = String::new();
        let mut bytes: Vec<u8> = Vec::new();
        for l in lines {
            script.push_str(l); script.push('\n');
            if l == "<INVALID-UTF8>" { bytes.extend_from_slice(&[0xff, 0xfe, b'i', b's', b'r', b'e', b'a', b'd', b'y']); } else { bytes.extend_from_slice(l.as_bytes()); }
            bytes.push(b'\n');
        }
        if *quit { script.push_str("quit\n"); bytes.extend_from_slice(b"quit\n"); }
        // what the protocol prescribes
        let mut want: Vec<String> = Vec::new();
        for l in lines {
            let t: Vec<&str> = l.split_whitespace().collect();
            if t.is_empty() || l == "<INVALID-UTF8>" { continue; }
            match t[0] { "uci" => want.push("<id lines> uciok".into()), "isready" => want.push("readyok".into()), "go" => want.push("bestmove".into()), _ => {} }
        }
        let mut child = Command::new(&exe).arg("uci-loop").stdin(Stdio::piped()).stdout(Stdio::piped()).stderr(Stdio::piped()).spawn().expect("spawn");
        { let mut cin = child.stdin.take().unwrap(); let _ = cin.write_all(&bytes); let _ = cin.flush(); }   // dropped: end of input
        let mut cout = child.stdout.take().unwrap();
        let reader = std::thread::spawn(move || { let mut s = String::new(); let _ = cout.read_to_string(&mut s); s });
        let t0 = std::time::Instant::now();
        let mut status = None;
        while t0.elapsed().as_secs() < wait_s {
            match child.try_wait() { Ok(Some(st)) => { status = Some(st); break; } _ => std::thread::sleep(std::time::Duration::from_millis(10)) }
        }
        let timed_out = status.is_none();
        if timed_out { let _ = child.kill(); let _ = child.wait(); }
        let out = reader.join().unwrap_or_default();
        let mut err = String::new();
        if let Some(mut e) = child.stderr.take() { let _ = e.read_to_string(&mut err); }
        rep.evals += 1;
        // fold the output into the same vocabulary
        let mut got: Vec<String> = Vec::new();
        let mut ids = 0usize;
        let mut bad_line: Option<String> = None;
        for l in out.lines() {
            if l.starts_with("info ") || l == "info" { continue; }
            if l.starts_with("id ") || (ids > 0 && l.starts_with("option ")) { ids += 1; continue; }
            if l == "uciok" { if ids >= 1 { got.push("<id lines> uciok".into()); } else { got.push("uciok without id lines".into()); } ids = 0; continue; }
            if ids > 0 { bad_line = Some(format!("id lines not followed by uciok: {}", l)); break; }
            if l == "readyok" { got.push("readyok".into()); continue; }
            if l.starts_with("bestmove ") && l.split_whitespace().count() == 2 { got.push("bestmove".into()); continue; }
            bad_line = Some(l.to_string()); break;
        }
        if ids > 0 && bad_line.is_none() { bad_line = Some("id lines not followed by uciok".into()); }
        let code = status.and_then(|s| s.code());
        let ok = !timed_out && code == Some(0) && bad_line.is_none() && got == want;
        if !ok {
            rep.violation = Some(format!("{{\"input\": {{\"stdin\": {}, \"ends_with\": {}}}, \"real\": {{\"stdout_without_info_lines\": {}, \"exit_status\": {}, \"still_running_after_s\": {}, \"unexpected_line\": {}, \"stderr\": {}}}, \"expected\": {{\"replies\": {:?}, \"exit_status\": 0}}}}",
                jstr(&script), jstr(if *quit { "quit" } else { "end of input" }), jstr(&out.lines().filter(|l| !l.starts_with("info")).collect::<Vec<_>>().join("\n")),
                code.map(|c| c.to_string()).unwrap_or("null".into()), if timed_out { wait_s.to_string() } else { "null".into() },
                bad_line.as_ref().map(|b| jstr(b)).unwrap_or("null".into()), jstr(&err.chars().take(300).collect::<String>()), want));
            return rep.finish();
        }
        rep.distinct += 1;
        if rep.distinct % 12 == 1 { rep.sample(jstr(&script)); }
    }
    rep.finish()
}

// ------------------------------------------------------------------------------------------------ C07
fn overrun(args: &[String]) -> i32 {
    let bound = num_arg(args, "bound", 70) as u64;
    let fens = ["8/PPPPPP1k/8/8/8/8/pppppp1K/8 w - - 0 1", "r3k2r/p1ppqpb1/bn2pnp1/3PN3/1p2P3/2N2Q1p/PPPBBPPP/R3K2R w KQkq - 0 1",
                "rnbqkbnr/pppppppp/8/8/8/8/PPPPPPPP/RNBQKBNR w KQkq - 0 1", "n1n5/PPPk4/8/8/8/8/4Kppp/5N1N b - - 0 1"];
    let mut rep = Report::new("overrun", &format!("{} positions x node limits 1..3000 step 7: nodes expanded after the first expired poll <= {} (depth 64); + the same deadlines on a searcher that has just completed a depth-3 search (3 positions)", fens.len(), bound));
    for fen in fens {
        let board = Board::new(fen);
        let mut n = 1u64;
        while n < 3000 {
            let mut s = Searcher::new();
            verif_hook::set_node_limit(Some(n));
            let _ = s.find_best_move(&board, 64, Some(std::time::Duration::from_secs(3600)));
            let total = s.verif_nodes();
            let first = verif_hook::first_stop_at();
            verif_hook::set_node_limit(None);
            rep.evals += 1;
            let over = first.map(|f| total.saturating_sub(f)).unwrap_or(0);
            if over > bound {
                rep.violation = Some(format!("{{\"input\": {{\"fen\": {}, \"node_limit\": {}}}, \"real\": {{\"nodes_after_deadline\": {}}}, \"expected\": {{\"at_most\": {}}}}}", jstr(fen), n, over, bound));
                return rep.finish();
            }
            rep.distinct += 1;
            n += 7;
        }
        rep.sample(jstr(fen));
    }
    // "at every point of the search" includes a search that follows other searches on the same engine: a completed deeper search
    // first (thousands of nodes), then deadlines at small node counts on the SAME searcher
    for fen in ["rnbqkbnr/pppppppp/8/8/8/8/PPPPPPPP/RNBQKBNR w KQkq - 0 1", "r3k2r/p1ppqpb1/bn2pnp1/3PN3/1p2P3/2N2Q1p/PPPBBPPP/R3K2R w KQkq - 0 1", "8/2p5/3p4/KP5r/1R3p1k/8/4P1P1/8 w - - 0 1"] {
        let board = Board::new(fen);
        let mut s = Searcher::new();
        let _ = s.find_best_move(&board, 3, None);
        let before = s.verif_nodes();
        for n in [1u64, 50, 400, 2000, 2500] {
            verif_hook::set_node_limit(Some(n));
            let _ = s.find_best_move(&board, 64, Some(std::time::Duration::from_secs(3600)));
            let total = s.verif_nodes();
            let first = verif_hook::first_stop_at();
            verif_hook::set_node_limit(None);
            rep.evals += 1;
            // (the hook records the node count at the first expired poll; a poll that comes late shows up as total - limit)
            let over = total.saturating_sub(first.unwrap_or(total).min(n.max(1)));
            if over > bound + 1 {
                rep.violation = Some(format!("{{\"input\": {{\"fen\": {}, \"earlier_search\": \"depth 3, no limit, {} nodes, same searcher\", \"node_limit\": {}}}, \"real\": {{\"nodes_expanded\": {}, \"nodes_after_deadline\": {}}}, \"expected\": {{\"at_most\": {}}}}}", jstr(fen), before, n, total, over, bound));
                return rep.finish();
            }
        }
        rep.distinct += 1;
    }
    rep.finish()
}

// ------------------------------------------------------------------------------------------------ C10
fn tables(_args: &[String]) -> i32 {
    let mut rep = Report::new("tables", "exhaustive: 64 squares x every subset of each slider's rays (incl. edges), knight/king patterns, 64x64 between/line pairs");
    let lk = crate::lookup::LookupTable::init();
    let walk = |s: usize, occ: u64, dirs: &[(i32, i32)]| -> u64 {
        let mut a = 0u64;
        for (dr, df) in dirs {
            let (mut r, mut f) = ((s / 8) as i32 + dr, (s % 8) as i32 + df);
            while (0..8).contains(&r) && (0..8).contains(&f) {
                let t = (r * 8 + f) as u64; a |= 1 << t;
                if occ & (1 << t) != 0 { break; }
                r += dr; f += df;
            }
        }
        a
    };
    let rd = [(1, 0), (-1, 0), (0, 1), (0, -1)]; let bd = [(1, 1), (1, -1), (-1, 1), (-1, -1)];
    for s in 0..64usize {
        for (pc, dirs) in [(Piece::Rook, &rd), (Piece::Bishop, &bd)] {
            let full = walk(s, 0, dirs);
            // every subset of the full rays (Carry-Rippler), plus garbage bits off the rays
            let mut sub = 0u64;
            loop {
                let occ = sub | (!full & 0xA5A5_5A5A_C3C3_3C3Cu64 & !(1u64 << s));
                let got = lk.sliding_moves(s as u8, occ, pc);
                let want = walk(s, occ, dirs);
                rep.evals += 1;
                if got != want {
                    rep.violation = Some(format!("{{\"input\": {{\"square\": {}, \"piece\": {}, \"occupancy\": \"0x{:016x}\"}}, \"real\": \"0x{:016x}\", \"expected\": \"0x{:016x}\"}}", s, jstr(&format!("{}", pc)), occ, got, want));
                    return rep.finish();
                }
                sub = sub.wrapping_sub(full) & full;
                if sub == 0 { break; }
            }
        }
        let kn = [(1, 2), (2, 1), (-1, 2), (-2, 1), (1, -2), (2, -1), (-1, -2), (-2, -1)];
        let ki = [(1, 0), (-1, 0), (0, 1), (0, -1), (1, 1), (1, -1), (-1, 1), (-1, -1)];
        for (pc, pat) in [(Piece::Knight, &kn), (Piece::King, &ki)] {
            let mut want = 0u64;
            for (dr, df) in pat { let (r, f) = ((s / 8) as i32 + dr, (s % 8) as i32 + df); if (0..8).contains(&r) && (0..8).contains(&f) { want |= 1 << (r * 8 + f); } }
            let got = lk.non_sliding_moves(s as u8, pc);
            rep.evals += 1;
            if got != want { rep.violation = Some(format!("{{\"input\": {{\"square\": {}, \"piece\": {}}}, \"real\": \"0x{:016x}\", \"expected\": \"0x{:016x}\"}}", s, jstr(&format!("{}", pc)), got, want)); return rep.finish(); }
        }
        for t in 0..64usize {
            let (dr, df) = ((t / 8) as i32 - (s / 8) as i32, (t % 8) as i32 - (s % 8) as i32);
            let aligned = s != t && (dr == 0 || df == 0 || dr.abs() == df.abs());
            let (mut seg, mut line) = (0u64, 0u64);
            if aligned {
                let (ur, uf) = (dr.signum(), df.signum());
                let (mut r, mut f) = ((s / 8) as i32, (s % 8) as i32);
                loop { seg |= 1 << (r * 8 + f); if (r * 8 + f) as usize == t { break; } r += ur; f += uf; }
                for sg in [1, -1] { let (mut r, mut f) = ((s / 8) as i32, (s % 8) as i32); while (0..8).contains(&r) && (0..8).contains(&f) { line |= 1 << (r * 8 + f); r += sg * ur; f += sg * uf; } }
            }
            rep.evals += 2;
            let (g1, g2) = (lk.between(s as u8, t as u8, true), lk.between(s as u8, t as u8, false));
            if g1 != seg || g2 != line {
                rep.violation = Some(format!("{{\"input\": {{\"from\": {}, \"to\": {}}}, \"real\": {{\"segment\": \"0x{:016x}\", \"line\": \"0x{:016x}\"}}, \"expected\": {{\"segment\": \"0x{:016x}\", \"line\": \"0x{:016x}\"}}}}", s, t, g1, g2, seg, line));
                return rep.finish();
            }
        }
        rep.distinct += 1;
    }
    rep.sample(jstr("rook d6, occupancy d2 e6 g6"));
    rep.finish()
}

// ------------------------------------------------------------------------------------------------ C14
fn eval_cmd(args: &[String]) -> i32 {
    let seed = seed_arg(args);
    let mut rep = Report::new("eval", &format!("corpus positions (seed {}): purity across call orders on one evaluator, side-to-move antisymmetry, colour-mirror symmetry, |score| < 32767, independence of move counters / castling rights / en-passant square", seed));
    let positions = corpus(seed, 80, 30);
    let mut shared = crate::eval::Evaluator::new();
    let mut prev: Option<RPos> = None;
    for p in positions.iter() {
        let fen = to_fen(p);
        let b = eng_board(p);
        let fresh = crate::eval::Evaluator::new().evaluate(&b);
        let sh = shared.evaluate(&b);
        rep.evals += 1;
        if sh != fresh {
            rep.violation = Some(format!("{{\"input\": {{\"evaluated_before\": {}, \"fen\": {}}}, \"real\": {}, \"expected\": {}}}", jstr(&prev.as_ref().map(to_fen).unwrap_or_default()), jstr(&fen), sh, fresh));
            return rep.finish();
        }
        let mut q = p.clone(); q.stm = q.stm.other(); q.ep = None;
        let flipped = crate::eval::Evaluator::new().evaluate(&eng_board(&q));
        let mut m = p.clone();
        for s in 0..64 { m.sq[s] = p.sq[s ^ 56].map(|(c, pc)| (c.other(), pc)); }
        m.stm = p.stm.other(); m.wk = p.bk; m.wq = p.bq; m.bk = p.wk; m.bq = p.wq; m.ep = p.ep.map(|e| e ^ 56);
        let mirrored = shared.evaluate(&eng_board(&m));
        rep.evals += 2;
        if flipped != -fresh || mirrored != fresh || fresh.abs() >= 32767 {
            rep.violation = Some(format!("{{\"input\": {{\"fen\": {}, \"mirror\": {}}}, \"real\": {{\"score\": {}, \"side_swapped\": {}, \"mirrored\": {}}}, \"expected\": \"side_swapped == -score, mirrored == score, |score| < 32767\"}}", jstr(&fen), jstr(&to_fen(&m)), fresh, flipped, mirrored));
            return rep.finish();
        }
        // "depends only on the piece placement and side to move": counters, castling rights and the en-passant square do not matter
        if fen.ends_with(" 0 1") {
            let fields: Vec<&str> = fen.split(' ').collect();
            for (clk, mvn) in [("41", "30"), ("75", "120"), ("99", "300"), ("100", "4000"), ("200", "1")] {
                let f2 = format!("{} {} {} {} {} {}", fields[0], fields[1], fields[2], fields[3], clk, mvn);
                let f3 = format!("{} {} - - {} {}", fields[0], fields[1], clk, mvn);
                for f in [f2, f3] {
                    let got = crate::eval::Evaluator::new().evaluate(&Board::new(&f));
                    rep.evals += 1;
                    if got != fresh {
                        rep.violation = Some(format!("{{\"input\": {{\"fen\": {}, \"same_placement_and_side_as\": {}}}, \"real\": {}, \"expected\": {}}}", jstr(&f), jstr(&fen), got, fresh));
                        return rep.finish();
                    }
                }
            }
        }
        prev = Some(m);
        rep.distinct += 1;
        if rep.distinct % 60 == 1 { rep.sample(jstr(&fen)); }
    }
    // same pawn squares, different owners, one evaluator (order dependence through cached state)
    let pairs = [("4k3/8/8/4p3/4P3/8/8/4K3 w - - 0 1", "4k3/8/8/4P3/4P3/8/8/4K3 w - - 0 1"), ("4k3/8/8/4P3/4P3/8/8/4K3 w - - 0 1", "4k3/8/8/4p3/4p3/8/8/4K3 b - - 0 1")];
    for (a, b) in pairs {
        let mut e = crate::eval::Evaluator::new();
        e.evaluate(&Board::new(a));
        let got = e.evaluate(&Board::new(b));
        let want = crate::eval::Evaluator::new().evaluate(&Board::new(b));
        rep.evals += 1;
        if got != want { rep.violation = Some(format!("{{\"input\": {{\"evaluated_before\": {}, \"fen\": {}}}, \"real\": {}, \"expected\": {}}}", jstr(a), jstr(b), got, want)); return rep.finish(); }
    }
    rep.finish()
}

// ------------------------------------------------------------------------------------------------ C09 / C04
/// pseudo-random legal games from the corpus starts; knights shuffling back and forth produce real repetitions
fn random_games(seed: u64, games: usize, plies: usize) -> Vec<(RPos, Vec<RMove>)> {
    let mut out = Vec::new();
    let mut x = seed.wrapping_mul(0x9E3779B97F4A7C15) | 1;
    let mut next = move || { x ^= x << 13; x ^= x >> 7; x ^= x << 17; x };
    let starts: Vec<RPos> = SPECIAL_FENS.iter().filter_map(|f| parse_fen(f)).collect();
    for g in 0..games {
        let start = starts[g % starts.len()].clone();
        let mut p = start.clone();
        let mut ms = Vec::new();
        let mut hist: Vec<RMove> = Vec::new();
        for ply in 0..plies {
            let lm = legal_moves(&p);
            if lm.is_empty() { break; }
            // every third game: shuffle pieces back and forth (undo the move made two plies ago when possible)
            let mut pick = lm[(next() % lm.len() as u64) as usize];
            if g % 3 == 0 && ply >= 2 {
                let back = hist[ply - 2];
                if let Some(m) = lm.iter().find(|m| m.from == back.to && m.to == back.from && m.promo.is_none()) { if next() % 4 != 0 { pick = *m; } }
            }
            hist.push(pick);
            ms.push(pick);
            p = apply(&p, pick);
        }
        out.push((start, ms));
    }
    out
}

/// C09: after `position ... moves ...` the searcher's game history holds exactly the positions before the current one;
/// with the current one on top (as search_position pushes it) a successor counts as a repetition draw iff it occurred at
/// least twice in the game so far; a second position command forgets the first history.
const LOPSIDED: [&str; 8] = ["6k1/5ppp/8/8/8/8/q7/6K1 w - - 0 1", "6k1/Q7/8/8/8/8/5PPP/6K1 b - - 0 1", "7k/6pp/8/8/3n4/8/r7/5K2 w - - 0 1",
        "5k2/R7/8/3N4/8/8/6PP/7K b - - 0 1", "8/8/8/4k3/8/8/3RK3/8 b - - 0 1", "4k3/8/8/8/8/2n5/8/R3K3 b - - 0 1",
        "r3k3/8/8/8/8/8/2N5/4K3 w - - 0 1", "6k1/5ppp/8/8/8/8/q7/6K1 b - - 0 1"];
/// reversible four-ply shuffles from p0 (each side moves a piece out and back; the position after the fourth ply is p0 again)
fn find_cycles(p0: &RPos, max: usize) -> Vec<[RMove; 4]> {
    let quiet_piece = |p: &RPos, m: &RMove| p.sq[m.to as usize].is_none() && m.promo.is_none() && matches!(p.sq[m.from as usize], Some((_, pc)) if pc != Pc::P)
        && !(matches!(p.sq[m.from as usize], Some((_, Pc::K))) && (m.from as i32 - m.to as i32).abs() == 2);
    let mut cycles: Vec<[RMove; 4]> = Vec::new();
    'find: for m1 in legal_moves(p0).into_iter().filter(|m| quiet_piece(p0, m)) {
        let p1 = apply(p0, m1);
        for m2 in legal_moves(&p1).into_iter().filter(|m| quiet_piece(&p1, m)) {
            let p2 = apply(&p1, m2);
            let m3 = RMove { from: m1.to, to: m1.from, promo: None };
            if !legal_moves(&p2).contains(&m3) { continue; }
            let p3 = apply(&p2, m3);
            let m4 = RMove { from: m2.to, to: m2.from, promo: None };
            if !legal_moves(&p3).contains(&m4) { continue; }
            if ref_pos_string(&apply(&p3, m4)) != ref_pos_string(p0) { continue; }
            cycles.push([m1, m2, m3, m4]);
            if cycles.len() >= max { break 'find; }
            break;
        }
    }
    cycles
}
fn game_history(args: &[String]) -> i32 {
    let seed = seed_arg(args);
    let games = num_arg(args, "games", 60);
    let plies = num_arg(args, "plies", 24);
    let mut rep = Report::new("game-history", &format!("{} pseudo-random legal games of <= {} plies (seed {}), every prefix, every successor of the final position; + 8 lopsided positions x <= 3 four-ply shuffle cycles x 0..=10 plies, depth-1 search through the real path against the bare set-up", games, plies, seed));
    let mut fl = Flounder::new();
    let mut uninterpreted = 0usize;
    for (start, ms) in random_games(seed, games, plies) {
        let fen = to_fen(&start);
        for (round, n) in [ms.len(), ms.len() / 2, ms.len(), ms.len() / 3].into_iter().enumerate() {
            let list: Vec<String> = ms[..n].iter().map(|m| m.uci()).collect();
            // an unrelated earlier command must not leak into the history (rounds 0, 1); rounds 2, 3: the same game again and
            // then a take-back, with nothing in between
            if round < 2 { fl.verif_handle_command("position startpos moves g1f3 g8f6 f3g1 f6g8"); }
            let cmd = if list.is_empty() { format!("position fen {}", fen) } else { format!("position fen {} moves {}", fen, list.join(" ")) };
            fl.verif_handle_command(&cmd);
            rep.evals += 1;
            let mut seen: Vec<String> = Vec::new();
            let mut p = start.clone();
            for m in &ms[..n] { seen.push(ref_pos_string(&p)); p = apply(&p, *m); }
            // where the history is kept is the engine's business: either the command records the positions before the current one
            // and the search pushes its root (length n), or the command records the current one too (length n + 1); any other
            // length cannot be interpreted here and is left to the through-the-search family below
            let len = fl.verif_searcher().verif_repetition_len();
            if len != n && len != n + 1 { uninterpreted += 1; continue; }
            let cur = fl.verif_board().clone();
            seen.push(ref_pos_string(&p));
            if len == n { fl.verif_searcher().verif_push_position(&cur); }
            for m in legal_moves(&p) {
                let succ = apply(&p, m);
                let occ = seen.iter().filter(|s| **s == ref_pos_string(&succ)).count();
                let sb = eng_board(&succ);
                let d = fl.verif_searcher().verif_is_repetition_draw(&sb);
                rep.evals += 1;
                if d != (occ >= 2) {
                    rep.violation = Some(format!("{{\"input\": {{\"cmd\": {}, \"successor_move\": {}}}, \"real\": {{\"scored_as_repetition_draw\": {}}}, \"expected\": {{\"earlier_occurrences\": {}, \"draw\": {}}}}}", jstr(&cmd), jstr(&m.uci()), d, occ, occ >= 2));
                    return rep.finish();
                }
            }
        }
        rep.distinct += 1;
        if rep.distinct % 20 == 1 { rep.sample(jstr(&fen)); }
    }
    // Through the real search path (no emulated root push, no assumption about where the history is kept): a depth-1 search
    // after `position fen F moves L` against a depth-1 search of the same position set up bare. At depth 1 the game history
    // can matter only through the repetition test of the root's successors, so by the property
    //   no successor with two earlier occurrences  =>  same score as the bare set-up;
    //   some such successor and the bare score < 0  =>  score exactly 0 and the chosen move is one of them.
    let lopsided = LOPSIDED;
    for f in lopsided {
        let Some(p0) = parse_fen(f) else { continue };
        let cycles = find_cycles(&p0, 3);
        for cyc in cycles {
            for n in 0..=10usize {
                let ms: Vec<RMove> = (0..n).map(|i| cyc[i % 4]).collect();
                let mut seen: Vec<String> = Vec::new();
                let mut p = p0.clone();
                for m in &ms { seen.push(ref_pos_string(&p)); p = apply(&p, *m); }
                seen.push(ref_pos_string(&p));
                let lm = legal_moves(&p);
                if lm.is_empty() { continue; }
                let reps: Vec<String> = lm.iter().filter(|m| { let s = ref_pos_string(&apply(&p, **m)); seen.iter().filter(|x| **x == s).count() >= 2 }).map(|m| m.uci()).collect();
                let list: Vec<String> = ms.iter().map(|m| m.uci()).collect();
                let cmd = if list.is_empty() { format!("position fen {}", f) } else { format!("position fen {} moves {}", f, list.join(" ")) };
                let mut b = Flounder::new();
                let bare = format!("position fen {}", to_fen(&p));
                b.verif_handle_command(&bare);
                let bb = b.verif_board().clone();
                let (sb, _) = b.verif_searcher().find_best_move(&bb, 1, None);
                for earlier in [false, true] {
                let mut a = Flounder::new();
                // an earlier, longer game through the same positions must not leak into this one's history
                let first = format!("position fen {} moves {}", f, (0..10).map(|i| cyc[i % 4].uci()).collect::<Vec<_>>().join(" "));
                if earlier { a.verif_handle_command(&first); }
                a.verif_handle_command(&cmd);
                let ba = a.verif_board().clone();
                let (sa, ma) = a.verif_searcher().find_best_move(&ba, 1, None);
                rep.evals += 1;
                let mv = ma.map(|m| m.to_algebraic()).unwrap_or_default();
                let bad = if reps.is_empty() { sa != sb } else if sb < 0 { sa != 0 || !reps.contains(&mv) } else { sa < 0 || sa > sb };
                if bad {
                    let want = if reps.is_empty() { format!("\"no successor has two earlier occurrences: score {} as for the bare position\"", sb) }
                        else { format!("{{\"successors_with_two_earlier_occurrences\": {:?}, \"bare_depth1_score\": {}, \"score\": \"0 by one of them when the bare score is negative, else within [0, bare]\"}}", reps, sb) };
                    let cmds = if earlier { format!("[{}, {}]", jstr(&first), jstr(&cmd)) } else { format!("[{}]", jstr(&cmd)) };
                    rep.violation = Some(format!("{{\"input\": {{\"cmds\": {}, \"then\": \"depth-1 search\"}}, \"real\": {{\"score\": {}, \"move\": {}}}, \"expected\": {}}}", cmds, sa, jstr(&mv), want));
                    return rep.finish();
                }
                }
            }
            rep.distinct += 1;
        }
    }
    if uninterpreted > 0 { rep.sample(jstr(&format!("{} command(s) left a history length that is neither n nor n + 1: successor family skipped there", uninterpreted))); }
    rep.finish()
}

/// C04: `position [startpos | fen F] [moves ...]` leaves the engine in exactly the position the rules prescribe
fn position_cmd(args: &[String]) -> i32 {
    let seed = seed_arg(args);
    let games = num_arg(args, "games", 80);
    let plies = num_arg(args, "plies", 30);
    let mut rep = Report::new("position-cmd", &format!("{} pseudo-random legal games of <= {} plies (seed {}) from {} start FENs incl. large counters, + startpos games", games, plies, seed, SPECIAL_FENS.len()));
    let mut fl = Flounder::new();
    for (gi, (start, ms)) in random_games(seed, games, plies).into_iter().enumerate() {
        let mut fen = to_fen(&start);
        // counters a real game can reach (fullmove beyond 255 included)
        let counters = [(0u32, 1u32), (99, 300), (12, 255), (3, 256), (49, 5949)][gi % 5];
        let parts: Vec<&str> = fen.split(' ').collect();
        fen = format!("{} {} {} {} {} {}", parts[0], parts[1], parts[2], parts[3], counters.0, counters.1);
        let list: Vec<String> = ms.iter().map(|m| m.uci()).collect();
        let cmd = if list.is_empty() { format!("position fen {}", fen) } else { format!("position fen {} moves {}", fen, list.join(" ")) };
        let crashed = std::panic::catch_unwind(std::panic::AssertUnwindSafe(|| fl.verif_handle_command(&cmd))).is_err();
        rep.evals += 1;
        if crashed {
            rep.violation = Some(format!("{{\"input\": {{\"cmd\": {}}}, \"real\": \"the engine process panics (see stderr)\", \"expected\": \"position set up, no panic\"}}", jstr(&cmd)));
            return rep.finish();
        }
        let mut p = start.clone();
        for m in &ms { p = apply(&p, *m); }
        let got = eng_pos_string(fl.verif_board());
        if got != ref_pos_string(&p) {
            rep.violation = Some(format!("{{\"input\": {{\"cmd\": {}}}, \"real\": {}, \"expected\": {}}}", jstr(&cmd), jstr(&got), jstr(&ref_pos_string(&p))));
            return rep.finish();
        }
        // any sequence of earlier position commands: a take-back (strict prefix of the list just played) and the bare start
        for n in [ms.len() / 2, 0usize] {
            if n >= ms.len() { continue; }
            let cmd2 = if n == 0 { format!("position fen {}", fen) } else { format!("position fen {} moves {}", fen, list[..n].join(" ")) };
            fl.verif_handle_command(&cmd2);
            rep.evals += 1;
            let mut q = start.clone();
            for m in &ms[..n] { q = apply(&q, *m); }
            let got2 = eng_pos_string(fl.verif_board());
            if got2 != ref_pos_string(&q) {
                rep.violation = Some(format!("{{\"input\": {{\"cmds\": [{}, {}]}}, \"real\": {}, \"expected\": {}}}", jstr(&cmd), jstr(&cmd2), jstr(&got2), jstr(&ref_pos_string(&q))));
                return rep.finish();
            }
        }
        rep.distinct += 1;
        if rep.distinct % 25 == 1 { rep.sample(jstr(&cmd)); }
    }
    // FEN fields: every position of the walk corpus (all right subsets, en-passant squares, both colours that the walks reach),
    // written as a FEN with a counter pair and read back through the position command
    for (i, p) in corpus(seed, games / 2, plies).iter().enumerate() {
        let f = to_fen(p);
        let parts: Vec<&str> = f.split(' ').collect();
        let c = [(0u32, 1u32), (99, 300), (7, 1023)][i % 3];
        let cmd = format!("position fen {} {} {} {} {} {}", parts[0], parts[1], parts[2], parts[3], c.0, c.1);
        let crashed = std::panic::catch_unwind(std::panic::AssertUnwindSafe(|| fl.verif_handle_command(&cmd))).is_err();
        rep.evals += 1;
        let got = if crashed { "panic".to_string() } else { eng_pos_string(fl.verif_board()) };
        if got != ref_pos_string(p) {
            rep.violation = Some(format!("{{\"input\": {{\"cmd\": {}}}, \"real\": {}, \"expected\": {}}}", jstr(&cmd), jstr(&got), jstr(&ref_pos_string(p))));
            return rep.finish();
        }
    }
    // startpos
    let sp = parse_fen(SPECIAL_FENS[0]).unwrap();
    let mut x = seed | 1;
    for _ in 0..20 {
        let mut p = sp.clone();
        let mut list = Vec::new();
        for _ in 0..40 {
            let lm = legal_moves(&p);
            if lm.is_empty() { break; }
            x ^= x << 13; x ^= x >> 7; x ^= x << 17;
            let m = lm[(x % lm.len() as u64) as usize];
            list.push(m.uci());
            p = apply(&p, m);
        }
        let cmd = format!("position startpos moves {}", list.join(" "));
        fl.verif_handle_command(&cmd);
        rep.evals += 1;
        let got = eng_pos_string(fl.verif_board());
        if got != ref_pos_string(&p) {
            rep.violation = Some(format!("{{\"input\": {{\"cmd\": {}}}, \"real\": {}, \"expected\": {}}}", jstr(&cmd), jstr(&got), jstr(&ref_pos_string(&p))));
            return rep.finish();
        }
        fl.verif_handle_command("position startpos");
        rep.evals += 1;
        let got = eng_pos_string(fl.verif_board());
        if got != ref_pos_string(&sp) {
            rep.violation = Some(format!("{{\"input\": {{\"cmds\": [{}, \"position startpos\"]}}, \"real\": {}, \"expected\": {}}}", jstr(&cmd), jstr(&got), jstr(&ref_pos_string(&sp))));
            return rep.finish();
        }
    }
    rep.finish()
}

/// enum-complete validation of the ASSUMED contract of Move::to_algebraic: every move record (64 x 64 x 6 x 5)
fn to_algebraic_all(_args: &[String]) -> i32 {
    let mut rep = Report::new("to-algebraic", "all 64 x 64 origin/destination pairs x 6 piece types x 5 move types = 122880 move records (complete)");
    let pcs = [Piece::Pawn, Piece::Knight, Piece::Bishop, Piece::Rook, Piece::Queen, Piece::King];
    let mts = [MoveType::Quiet, MoveType::Capture, MoveType::EnPassant, MoveType::Castle, MoveType::Promotion];
    let sqn = |s: u8| format!("{}{}", (b'a' + s % 8) as char, (b'1' + s / 8) as char);
    for from in 0u8..64 { for to in 0u8..64 { for pc in pcs { for mt in mts {
        let m = Move::new(from, to, pc, mt);
        let suffix = if mt == MoveType::Promotion { match pc { Piece::Bishop => "b", Piece::Knight => "n", Piece::Rook => "r", Piece::Queen => "q", _ => "" } } else { "" };
        let want = format!("{}{}{}", sqn(from), sqn(to), suffix);
        rep.evals += 1;
        if m.to_algebraic() != want {
            rep.violation = Some(format!("{{\"input\": {{\"from\": {}, \"to\": {}, \"piece\": {}, \"type\": {}}}, \"real\": {}, \"expected\": {}}}", from, to, pc as usize, mt as usize, jstr(&m.to_algebraic()), jstr(&want)));
            return rep.finish();
        }
    } } } }
    rep.distinct = rep.evals;
    rep.finish()
}

// ------------------------------------------------------------------------------------------------ C05
const WIN: i32 = 30000;
fn class(s: i32) -> i32 { if s >= WIN { 1 } else if s <= -WIN { -1 } else { 0 } }
/// plain negamax over the engine's own move generator, leaves scored by the engine's own quiescence search (full window)
fn plain(mg: &MoveGenerator, q: &mut Searcher, b: &Board, d: u8) -> i32 {
    if d == 0 { return q.verif_quiescence(b); }
    let ms = mg.generate_moves(b);
    if ms.is_empty() { return if mg.is_in_check(b) { -1_000_000 } else { 0 }; }
    let mut best = i32::MIN;
    for m in ms { let v = -plain(mg, q, &b.clone_with_move(&m), d - 1); if v > best { best = v; } }
    best
}
/// the same value by a plain fail-soft alpha-beta of my own (no ordering, no table, no pruning beyond the cut-off): orders of
/// magnitude cheaper than `plain` on positions with many men; checked against `plain` on the small corpus below
fn plain_ab(mg: &MoveGenerator, q: &mut Searcher, b: &Board, d: u8, mut alpha: i64, beta: i64) -> i64 {
    if d == 0 { return q.verif_quiescence(b) as i64; }
    let ms = mg.generate_moves(b);
    if ms.is_empty() { return if mg.is_in_check(b) { -1_000_000 } else { 0 }; }
    let mut best = i64::MIN;
    for m in ms {
        let v = -plain_ab(mg, q, &b.clone_with_move(&m), d - 1, -beta, -alpha);
        if v > best { best = v; }
        if best > alpha { alpha = best; }
        if alpha >= beta { break; }
    }
    best
}
/// C05 (bounded): completed iterative-deepening searches to depth 1..3 from a fresh engine report the minimax value of the
/// depth-limited tree with quiescence leaves, and the returned move attains it (mate scores compared as won / lost)
fn minimax_cmd(args: &[String]) -> i32 {
    let seed = seed_arg(args);
    let walks = num_arg(args, "walks", 12);
    let maxd = num_arg(args, "depth", 3) as u8;
    let mut rep = Report::new("minimax", &format!("10 small positions (<= 10 men, small quiescence trees) + {} positions 1-5 random legal plies away (seed {}), depths 1..{}: fresh-engine score vs plain minimax with quiescence leaves; root move attains it; + 13 tactical positions with more men (incl. sacrifice-then-quiet-mate) x depth 2..3", walks, seed, maxd));
    let mg = MoveGenerator::new();
    let mut q = Searcher::new();
    // positions whose quiescence trees are small (few men, no promotion races): the reference is plain minimax, exponential
    let small: [&str; 10] = ["8/8/8/4k3/8/8/4K3/8 w - - 0 1", "8/8/4k3/8/2p5/8/B2P2K1/8 w - - 0 1", "7k/8/5K2/6Q1/8/8/8/8 w - - 0 1",
        "4k3/8/8/8/3pP3/8/8/4K3 b - e3 0 1", "6k1/5ppp/8/8/8/8/8/R3K3 w Q - 0 1", "1k6/8/8/8/8/8/R7/1R2K3 b - - 0 1", "5k2/8/8/8/8/8/8/4K2R w K - 0 1",
        "4k3/5p2/8/6B1/8/7q/6P1/3R2K1 w - - 0 1", "8/8/8/2k5/3pP3/8/8/4K2B b - e3 0 1", "3k4/3p4/8/K1P4r/8/8/8/8 b - - 0 1"];
    let mut positions: Vec<RPos> = match str_arg(args, "fen") { Some(f) => vec![parse_fen(f).expect("fen")], None => small.iter().filter_map(|f| parse_fen(f)).filter(|p| valid(p)).collect() };
    if str_arg(args, "fen").is_none() {
        // plus positions a few pseudo-random legal plies away from them
        let mut x = seed.wrapping_mul(0x9E3779B97F4A7C15) | 1;
        let base: Vec<RPos> = positions.clone();
        for w in 0..walks { let mut p = base[w % base.len()].clone(); for _ in 0..(1 + w % 5) { let lm = legal_moves(&p); if lm.is_empty() { break; } x ^= x << 13; x ^= x >> 7; x ^= x << 17; p = apply(&p, lm[(x % lm.len() as u64) as usize]); } positions.push(p); }
    }
    for p in positions.iter() {
        let fen = to_fen(p);
        let b = eng_board(p);
        let men = p.sq.iter().filter(|x| x.is_some()).count();
        if mg.generate_moves(&b).is_empty() { continue; }
        for d in 1..=maxd {
            if men > 10 { continue; }
            let want = plain(&mg, &mut q, &b, d);
            let want_ab = plain_ab(&mg, &mut q, &b, d, -2_000_000, 2_000_000);
            if want_ab != want as i64 { eprintln!("ORACLE MISMATCH plain {} vs plain_ab {} at {} depth {}", want, want_ab, fen, d); return 2; }
            let mut s = Searcher::new();
            let (score, mv) = s.find_best_move(&b, d, None);
            rep.evals += 1;
            let same = class(score) == class(want) && (class(want) != 0 || score == want);
            let mv_ok = match mv { Some(m) => { let v = -plain(&mg, &mut q, &b.clone_with_move(&m), d - 1); class(v) == class(want) && (class(want) != 0 || v == want) }, None => false };
            if !same || !mv_ok {
                rep.violation = Some(format!("{{\"input\": {{\"fen\": {}, \"depth\": {}}}, \"real\": {{\"score\": {}, \"move\": {}, \"move_attains_value\": {}}}, \"expected\": {{\"minimax\": {}}}}}",
                    jstr(&fen), d, score, jstr(&mv.map(|m| m.to_algebraic()).unwrap_or("0000".into())), mv_ok, want));
                return rep.finish();
            }
        }
        rep.distinct += 1;
        if rep.distinct % 10 == 1 { rep.sample(jstr(&fen)); }
    }
    // TACTICAL positions with more men (back-rank and smothered mates, forks, hanging pieces; one side often far behind): the
    // places where forward pruning, reductions and margins go wrong. Depth 2..3 against plain minimax (seconds each).
    if str_arg(args, "fen").is_none() {
        let tactical = ["6k1/5ppp/8/8/8/8/5PPP/3R2K1 w - - 0 1", "6rk/6pp/8/6N1/8/8/8/7K w - - 0 1", "r4rk1/ppp2ppp/8/8/8/8/PPP2PPP/R3R1K1 w - - 0 1",
            "3r2k1/5ppp/8/8/8/1Q6/5PPP/6K1 b - - 0 1", "5rk1/5ppp/8/8/8/8/1q3PPP/3RR1K1 w - - 0 1", "2kr4/ppp5/8/8/8/5n2/PPP3PP/2KR3R b - - 0 1",
            "r3k3/8/8/8/8/8/5PPP/4R1K1 b - - 0 1", "6k1/5pp1/7p/8/8/2q5/5PPP/1R4K1 w - - 0 1", "5r1k/6pp/8/3N4/8/8/8/1Q5K w - - 0 1",
            "4r1k1/5ppp/8/8/8/8/3q1PPP/2R2RK1 b - - 0 1",
            // a sacrifice followed by a QUIET mating move two plies later (the mover is far behind when the mate is played)
            "5r1k/6pp/7N/q7/2Q5/8/6PP/7K w - - 0 1", "7k/6pp/8/2q5/Q7/7n/6PP/5R1K b - - 0 1", "6rk/5Npp/8/q7/8/8/1Q4PP/7K w - - 0 1"];
        let tn = num_arg(args, "tactical", tactical.len());
        for f in tactical.iter().take(tn) {
            let Some(p) = parse_fen(f) else { continue };
            if !valid(&p) { continue; }
            let b = eng_board(&p);
            if mg.generate_moves(&b).is_empty() { continue; }
            for d in 2..=maxd.min(3) {
                let want = plain(&mg, &mut q, &b, d);
                let mut s = Searcher::new();
                let (score, mv) = s.find_best_move(&b, d, None);
                rep.evals += 1;
                let same = class(score) == class(want) && (class(want) != 0 || score == want);
                let mv_ok = match mv { Some(m) => { let v = -plain(&mg, &mut q, &b.clone_with_move(&m), d - 1); class(v) == class(want) && (class(want) != 0 || v == want) }, None => false };
                if !same || !mv_ok {
                    rep.violation = Some(format!("{{\"input\": {{\"fen\": {}, \"depth\": {}}}, \"real\": {{\"score\": {}, \"move\": {}, \"move_attains_value\": {}}}, \"expected\": {{\"minimax\": {}}}}}",
                        jstr(f), d, score, jstr(&mv.map(|m| m.to_algebraic()).unwrap_or("0000".into())), mv_ok, want));
                    return rep.finish();
                }
            }
            rep.distinct += 1;
        }
    }
    // BACK-RANK structures, pseudo-randomly varied (--backrank=N of them, depth 3): castled kings behind three pawns, heavy pieces and
    // a minor each on pseudo-random squares - where the value of a move often hangs on a quiet mating move three plies down
    let brn = num_arg(args, "backrank", 0);
    if brn > 0 && str_arg(args, "fen").is_none() {
        let mut x = seed.wrapping_mul(0xD1B54A32D192ED03) | 1;
        let mut rnd = |m: usize| -> usize { x ^= x << 13; x ^= x >> 7; x ^= x << 17; (x % m as u64) as usize };
        let mut made = 0usize; let mut tries = 0usize;
        while made < brn && tries < brn * 40 {
            tries += 1;
            let mut p = empty_pos(if rnd(2) == 0 { Col::W } else { Col::B });
            p.sq[6] = Some((Col::W, Pc::K)); p.sq[13] = Some((Col::W, Pc::P)); p.sq[14] = Some((Col::W, Pc::P)); p.sq[15] = Some((Col::W, Pc::P));
            p.sq[62] = Some((Col::B, Pc::K)); p.sq[53] = Some((Col::B, Pc::P)); p.sq[54] = Some((Col::B, Pc::P)); p.sq[55] = Some((Col::B, Pc::P));
            let mut put = |p: &mut RPos, c: Col, pc: Pc, lo: usize, hi: usize, rnd: &mut dyn FnMut(usize) -> usize| { for _ in 0..20 { let s = lo + rnd(hi - lo); if p.sq[s].is_none() { p.sq[s] = Some((c, pc)); break; } } };
            put(&mut p, Col::W, Pc::R, 0, 6, &mut rnd); if rnd(2) == 0 { put(&mut p, Col::W, Pc::R, 0, 24, &mut rnd); }
            put(&mut p, Col::B, Pc::R, 56, 62, &mut rnd); if rnd(2) == 0 { put(&mut p, Col::B, Pc::R, 40, 62, &mut rnd); }
            if rnd(4) != 0 { put(&mut p, Col::W, Pc::Q, 8, 48, &mut rnd); }
            if rnd(4) != 0 { put(&mut p, Col::B, Pc::Q, 16, 56, &mut rnd); }
            put(&mut p, Col::W, if rnd(2) == 0 { Pc::B } else { Pc::N }, 16, 48, &mut rnd);
            put(&mut p, Col::B, if rnd(2) == 0 { Pc::B } else { Pc::N }, 16, 48, &mut rnd);
            for _ in 0..rnd(3) { put(&mut p, Col::W, Pc::P, 8, 32, &mut rnd); put(&mut p, Col::B, Pc::P, 32, 56, &mut rnd); }
            if !valid(&p) { continue; }
            let b = eng_board(&p);
            if mg.generate_moves(&b).is_empty() { continue; }
            let f = to_fen(&p);
            let d = 3u8;
            let want = plain_ab(&mg, &mut q, &b, d, -2_000_000, 2_000_000) as i32;
            let mut s = Searcher::new();
            let (score, mv) = s.find_best_move(&b, d, None);
            rep.evals += 1;
            let same = class(score) == class(want) && (class(want) != 0 || score == want);
            let mv_ok = match mv { Some(m) => { let v = -(plain_ab(&mg, &mut q, &b.clone_with_move(&m), d - 1, -2_000_000, 2_000_000) as i32); class(v) == class(want) && (class(want) != 0 || v == want) }, None => false };
            if !same || !mv_ok {
                rep.violation = Some(format!("{{\"input\": {{\"fen\": {}, \"depth\": {}}}, \"real\": {{\"score\": {}, \"move\": {}, \"move_attains_value\": {}}}, \"expected\": {{\"minimax\": {}}}}}",
                    jstr(&f), d, score, jstr(&mv.map(|m| m.to_algebraic()).unwrap_or("0000".into())), mv_ok, want));
                return rep.finish();
            }
            made += 1; rep.distinct += 1;
        }
        rep.sample(jstr(&format!("back-rank family: {} positions", made)));
    }
    rep.finish()
}

// ------------------------------------------------------------------------------------------------ C08
/// C08 (bounded): from a fresh engine, with a mate in one on the board every completed search of depth 1..4 answers with a
/// mating move; at depth 2..3 a move that allows mate in one is not chosen when some move avoids it
fn mate_in_one(args: &[String]) -> i32 {
    let seed = seed_arg(args);
    let walks = num_arg(args, "walks", 200);
    let mut rep = Report::new("mate-in-one", &format!("corpus positions (seed {}, {} walks): every position with a mate in one x depth 1..4; every position mixing moves that do / do not allow mate in one x depth 2..3; each also with half-move clocks 99, 98, 100 in the FEN (depth 1..2 resp. 2..3); + a family of lost positions (cornered king and pawn against king and two rooks, placements enumerated with a stride, --lost of them) mixing such moves x depth 2..3", seed, walks));
    let mates_in_one = |p: &RPos| -> Vec<RMove> { legal_moves(p).into_iter().filter(|m| { let n = apply(p, *m); legal_moves(&n).is_empty() && in_check(&n, n.stm) }).collect() };
    for p in corpus(seed, walks, 40).iter() {
        let fen0 = to_fen(p);
        let lm = legal_moves(p);
        if lm.is_empty() { continue; }
        let m1 = mates_in_one(p);
        let allows: Vec<String> = if m1.is_empty() { lm.iter().filter(|m| !mates_in_one(&apply(p, **m)).is_empty()).map(|m| m.uci()).collect() } else { vec![] };
        if m1.is_empty() && (allows.is_empty() || allows.len() == lm.len()) { continue; }
        // the move counters are part of a valid position too: late values of the half-move clock (fifty-move territory) must not
        // change either answer - checkmate ends the game whatever the clock says
        for (ci, clk) in [" 0 1", " 99 80", " 98 80", " 100 90"].iter().enumerate() {
            let fen = if fen0.ends_with(" 0 1") { format!("{}{}", &fen0[..fen0.len() - 4], clk) } else { if ci > 0 { continue; } fen0.clone() };
            let b = Board::new(&fen);
            if !m1.is_empty() {
                for d in 1..=(if ci == 0 { 4u8 } else { 2 }) {
                    let mut s = Searcher::new();
                    let (_, mv) = s.find_best_move(&b, d, None);
                    rep.evals += 1;
                    let ok = mv.map(|m| m1.iter().any(|x| x.uci() == m.to_algebraic())).unwrap_or(false);
                    if !ok {
                        rep.violation = Some(format!("{{\"input\": {{\"fen\": {}, \"depth\": {}}}, \"real\": {{\"bestmove\": {}}}, \"expected\": {}}}", jstr(&fen), d,
                            jstr(&mv.map(|m| m.to_algebraic()).unwrap_or("0000".into())), jstr(&format!("a mating move: one of {:?}", m1.iter().map(|m| m.uci()).collect::<Vec<_>>()))));
                        return rep.finish();
                    }
                }
            } else {
                for d in 2..=3u8 {
                    let mut s = Searcher::new();
                    let (_, mv) = s.find_best_move(&b, d, None);
                    rep.evals += 1;
                    if let Some(m) = mv { if allows.contains(&m.to_algebraic()) {
                        rep.violation = Some(format!("{{\"input\": {{\"fen\": {}, \"depth\": {}}}, \"real\": {{\"bestmove\": {}}}, \"expected\": \"a move that does not allow mate in one (some exist)\"}}", jstr(&fen), d, jstr(&m.to_algebraic())));
                        return rep.finish();
                    } }
                }
            }
        }
        rep.distinct += 1;
        if rep.distinct % 25 == 1 { rep.sample(jstr(&fen0)); }
    }
    // LOST positions (second sentence under pressure): a cornered king with one pawn against king and two rooks - nearly every
    // move runs into a mate the search can see, so every score sits at the bottom of the window and only the handling of the
    // incumbent decides which move is answered. Placements enumerated with a stride; those mixing moves that do / do not allow
    // mate in one are searched to depth 2 and 3 from a fresh engine.
    let lost_n = num_arg(args, "lost", 400);
    let mut lost_done = 0usize;
    let mut idx = seed as usize % 7;
    'lost: for wk in [0usize, 7, 1, 6, 8, 15] { for wp in [8usize, 9, 13, 14, 15, 16, 23] { for bk in [26usize, 27, 28, 29, 35, 36, 20, 21] { for r1 in 0..64usize { for r2 in (r1 + 1)..64usize {
        idx += 1; if idx % 11 != 0 { continue; }
        let occ = [wk, wp, bk, r1, r2];
        let mut dup = false; for i in 0..5 { for j in 0..i { if occ[i] == occ[j] { dup = true; } } }
        if dup { continue; }
        let mut p = empty_pos(Col::W);
        p.sq[wk] = Some((Col::W, Pc::K)); p.sq[wp] = Some((Col::W, Pc::P)); p.sq[bk] = Some((Col::B, Pc::K)); p.sq[r1] = Some((Col::B, Pc::R)); p.sq[r2] = Some((Col::B, Pc::R));
        if !valid(&p) { continue; }
        let lm = legal_moves(&p);
        if lm.is_empty() || !mates_in_one(&p).is_empty() { continue; }
        let allows: Vec<String> = lm.iter().filter(|m| !mates_in_one(&apply(&p, **m)).is_empty()).map(|m| m.uci()).collect();
        if allows.is_empty() || allows.len() == lm.len() { continue; }
        let fen = to_fen(&p);
        let b = Board::new(&fen);
        for d in 2..=3u8 {
            let mut s = Searcher::new();
            let (_, mv) = s.find_best_move(&b, d, None);
            rep.evals += 1;
            if let Some(m) = mv { if allows.contains(&m.to_algebraic()) {
                rep.violation = Some(format!("{{\"input\": {{\"fen\": {}, \"depth\": {}}}, \"real\": {{\"bestmove\": {}}}, \"expected\": \"a move that does not allow mate in one (some exist)\"}}", jstr(&fen), d, jstr(&m.to_algebraic())));
                return rep.finish();
            } }
        }
        rep.distinct += 1; lost_done += 1;
        if lost_done >= lost_n { break 'lost; }
    } } } } }
    rep.sample(jstr(&format!("lost-position family: {} positions", lost_done)));
    rep.finish()
}

// ------------------------------------------------------------------------------------------------ C01 (small boards)
fn empty_pos(stm: Col) -> RPos { RPos { sq: [None; 64], stm, wk: false, wq: false, bk: false, bq: false, ep: None } }
fn cmp_movegen(mg: &MoveGenerator, p: &RPos, rep: &mut Report) -> bool {
    let b = eng_board(p);
    rep.evals += 1;
    let ref_moves: BTreeSet<String> = legal_moves(p).iter().map(|m| m.uci()).collect();
    let eng: Vec<Move> = mg.generate_moves(&b);
    let eng_set: BTreeSet<String> = eng.iter().map(|m| m.to_algebraic()).collect();
    if eng_set != ref_moves || eng_set.len() != eng.len() || mg.is_in_check(&b) != in_check(p, p.stm) {
        let missing: Vec<&String> = ref_moves.difference(&eng_set).collect();
        let extra: Vec<&String> = eng_set.difference(&ref_moves).collect();
        rep.violation = Some(format!("{{\"input\": {{\"fen\": {}}}, \"real\": {{\"missing\": {:?}, \"extra\": {:?}, \"duplicates\": {}, \"is_in_check\": {}}}, \"expected\": \"generate_moves == legal moves of the rules; is_in_check == {}\"}}",
            jstr(&to_fen(p)), missing, extra, eng.len() - eng_set.len(), mg.is_in_check(&b), in_check(p, p.stm)));
        return false;
    }
    true
}
/// every generated move played on the real board gives the successor the rules prescribe (C02)
fn cmp_make(mg: &MoveGenerator, p: &RPos, rep: &mut Report) -> bool {
    let b = eng_board(p);
    for m in mg.generate_moves(&b) {
        let u = m.to_algebraic();
        let rm = match legal_moves(p).into_iter().find(|x| x.uci() == u) { Some(x) => x, None => continue };
        let nb = b.clone_with_move(&m);
        let np = apply(p, rm);
        rep.evals += 1;
        if eng_pos_string(&nb) != ref_pos_string(&np) {
            rep.violation = Some(format!("{{\"input\": {{\"fen\": {}, \"move\": {}}}, \"real\": {}, \"expected\": {}}}", jstr(&to_fen(p)), jstr(&u), jstr(&eng_pos_string(&nb)), jstr(&ref_pos_string(&np))));
            return false;
        }
    }
    true
}
/// exhaustive small-board families (complete within each family, time-capped across families):
///  (A) en passant: capturing pawn x pushed pawn x mover's king anywhere x one enemy line piece anywhere (x a second own man)
///  (C) promotions: pawn on the seventh x mover's king anywhere x one enemy man anywhere
///  (B) four men: both kings + one man of the mover + one enemy man (all kinds, all squares), either side to move
fn movegen_small(args: &[String]) -> i32 {
    let secs = num_arg(args, "secs", 60) as u64;
    let make = str_arg(args, "what") == Some("make");
    let t0 = std::time::Instant::now();
    let mut rep = Report::new("movegen-small", &format!("exhaustive small-board families, time cap {} s: (A) all en-passant set-ups with the mover's king anywhere and one enemy bishop/rook/queen anywhere (or a second enemy pawn), generated moves compared and - for the pawn variant or with --what=make - every move played and its successor compared; (C) all promotion set-ups (pawn on its seventh rank on every file, mover's king anywhere, one enemy man of any kind anywhere, enemy king in a far corner), complete; (B) mover's king anywhere, enemy king on a1 or h8, one man each (all kinds, all squares, both sides to move), enumerated in a fixed order (enemy line pieces first) until the cap", secs));
    let mg = MoveGenerator::new();
    // (A)
    for white in [true, false] {
        let (me, op) = if white { (Col::W, Col::B) } else { (Col::B, Col::W) };
        let (r5, r6, r7) = if white { (4usize, 5usize, 6usize) } else { (3usize, 2usize, 1usize) };
        for f in 0..8usize { for df in [-1i32, 1] {
            let vf = f as i32 + df; if !(0..8).contains(&vf) { continue; }
            let from = r5 * 8 + f; let victim = r5 * 8 + vf as usize; let ep = r6 * 8 + vf as usize; let origin = r7 * 8 + vf as usize;
            for ok in [if white { 63usize } else { 0 }, if white { 56 } else { 7 }] {
                for k in 0..64usize { for sl in 0..64usize { for pc in [Pc::B, Pc::R, Pc::Q, Pc::P] {
                    if pc == Pc::P && (sl < 8 || sl >= 56 || k % 9 != 0) { continue; }   // (an extra enemy pawn: fewer king squares)
                    let mut p = empty_pos(me);
                    let occ = [from, victim, ep, origin, ok, k, sl];
                    let mut dup = false; for i in 0..occ.len() { for j in 0..i { if occ[i] == occ[j] { dup = true; } } }
                    if dup { continue; }
                    p.sq[from] = Some((me, Pc::P)); p.sq[victim] = Some((op, Pc::P)); p.sq[ok] = Some((op, Pc::K)); p.sq[k] = Some((me, Pc::K)); p.sq[sl] = Some((op, pc));
                    p.ep = Some(ep as u8);
                    if !valid(&p) { continue; }
                    if !cmp_movegen(&mg, &p, &mut rep) { return rep.finish(); }
                    if (make || pc == Pc::P) && !cmp_make(&mg, &p, &mut rep) { return rep.finish(); }
                    rep.distinct += 1;
                } } }
                if t0.elapsed().as_secs() > secs / 2 { break; }
            }
        } }
    }
    let a_done = rep.distinct;
    // (C) promotions: a pawn of the mover on its seventh rank (every file), the mover's king anywhere, the enemy king in a far
    //     corner, one enemy man of any kind anywhere (on the eighth rank beside the pawn it can be captured with promotion,
    //     on a line through the pawn it pins it): all four promotion pieces must come out exactly when the rules allow them
    for white in [true, false] {
        let (me, op) = if white { (Col::W, Col::B) } else { (Col::B, Col::W) };
        let r7 = if white { 6usize } else { 1usize };
        for f in 0..8usize { let pw = r7 * 8 + f;
            for ek in [if white { 0usize } else { 63 }, if white { 7 } else { 56 }] {
                for k in 0..64usize { for e in 0..64usize { for pc in [Pc::Q, Pc::R, Pc::B, Pc::N] {
                    if k == pw || e == pw || ek == pw || k == ek || e == ek || e == k { continue; }
                    let mut p = empty_pos(me);
                    p.sq[pw] = Some((me, Pc::P)); p.sq[k] = Some((me, Pc::K)); p.sq[ek] = Some((op, Pc::K)); p.sq[e] = Some((op, pc));
                    if !valid(&p) { continue; }
                    if !cmp_movegen(&mg, &p, &mut rep) { return rep.finish(); }
                    rep.distinct += 1;
                } } }
            }
        }
    }
    let c_done = rep.distinct - a_done;
    // (B)
    let kinds = [Pc::Q, Pc::R, Pc::B, Pc::N, Pc::P];
    'outer: for stm in [Col::W, Col::B] { for own in kinds { for en in kinds { for k in 0..64usize { for ek in [0usize, 63] { if ek == k { continue; }
        for a in 0..64usize { if a == k || a == ek { continue; } for e in 0..64usize { if e == k || e == ek || e == a { continue; }
            let mut p = empty_pos(stm);
            p.sq[k] = Some((stm, Pc::K)); p.sq[ek] = Some((stm.other(), Pc::K)); p.sq[a] = Some((stm, own)); p.sq[e] = Some((stm.other(), en));
            if !valid(&p) { continue; }
            if !cmp_movegen(&mg, &p, &mut rep) { return rep.finish(); }
            rep.distinct += 1;
        } }
        if t0.elapsed().as_secs() > secs { break 'outer; }
    } } } } }
    rep.sample(jstr(&format!("family A positions: {}, family C positions: {}, family B positions: {}", a_done, c_done, rep.distinct - a_done - c_done)));
    rep.finish()
}

// ------------------------------------------------------------------------------------------------ C13
/// C13 (bounded): depth-limited searches give the same (score, move, node count) in two engine instances (different random
/// Zobrist keys), and after ucinewgame the engine answers exactly like a fresh one
fn newgame_cmd(args: &[String]) -> i32 {
    let seed = seed_arg(args);
    let n = num_arg(args, "positions", 12);
    let maxd = num_arg(args, "depth", 3) as u8;
    let mut rep = Report::new("newgame", &format!("{} corpus positions (seed {}) x depth 1..{}: two engine instances with independent key draws agree on (score, move, nodes); an engine that played another game and received ucinewgame agrees with a fresh one; + 8 lopsided positions x <= 2 shuffle cycles x 6/8/9 plies of history (repetition rule live), two fresh engines agree", n, seed, maxd));
    // the first 8 as before; beyond them only positions whose quiescence trees stay small (<= 10 men, no pawn about to promote)
    let small = |p: &RPos| p.sq.iter().filter(|x| x.is_some()).count() <= 10 && !(8..16).any(|i| p.sq[i] == Some((Col::B, Pc::P))) && !(48..56).any(|i| p.sq[i] == Some((Col::W, Pc::P)));
    let positions: Vec<RPos> = corpus(seed, 30, 20).into_iter().filter(|p| p.sq.iter().filter(|x| x.is_some()).count() <= 14 && !legal_moves(p).is_empty())
        .enumerate().filter(|(i, p)| *i < 8 || small(p)).map(|(_, p)| p).take(n).collect();
    // an engine with a past: a game, searches that filled every table, then ucinewgame
    let mut used = Flounder::new();
    used.verif_handle_command("position startpos moves e2e4 e7e5 g1f3 b8c6 f1c4 g8f6");
    { let b = used.verif_board().clone(); used.verif_searcher().find_best_move(&b, 4, None); }
    used.verif_handle_command("position fen r3k2r/p1ppqpb1/bn2pnp1/3PN3/1p2P3/2N2Q1p/PPPBBPPP/R3K2R w KQkq - 0 1");
    { let b = used.verif_board().clone(); used.verif_searcher().find_best_move(&b, 3, None); }
    used.verif_handle_command("ucinewgame");
    for p in positions.iter() {
        let fen = to_fen(p);
        let cmd = format!("position fen {}", fen);
        let mut a = Flounder::new();
        let mut b = Flounder::new();
        a.verif_handle_command(&cmd); b.verif_handle_command(&cmd); used.verif_handle_command(&cmd);
        for d in 1..=maxd {
            let ba = a.verif_board().clone();
            let ra = a.verif_searcher().find_best_move(&ba, d, None); let na = a.verif_searcher().verif_nodes();
            let rb = b.verif_searcher().find_best_move(&ba, d, None); let nb = b.verif_searcher().verif_nodes();
            let ru = used.verif_searcher().find_best_move(&ba, d, None); let nu = used.verif_searcher().verif_nodes();
            rep.evals += 1;
            let show = |r: &(i32, Option<Move>), n: u64| format!("score {} move {} nodes {}", r.0, r.1.map(|m| m.to_algebraic()).unwrap_or("0000".into()), n);
            if ra != rb || na != nb {
                rep.violation = Some(format!("{{\"input\": {{\"fen\": {}, \"depth\": {}, \"what\": \"two fresh engines (independent key draws)\"}}, \"real\": {}, \"expected\": {}}}", jstr(&fen), d, jstr(&show(&rb, nb)), jstr(&show(&ra, na))));
                return rep.finish();
            }
            if ra != ru || na != nu {
                rep.violation = Some(format!("{{\"input\": {{\"fen\": {}, \"depth\": {}, \"what\": \"after a game, searches and ucinewgame vs fresh\"}}, \"real\": {}, \"expected\": {}}}", jstr(&fen), d, jstr(&show(&ru, nu)), jstr(&show(&ra, na))));
                return rep.finish();
            }
        }
        // the next position is a new game for all three
        a.verif_handle_command("ucinewgame"); b.verif_handle_command("ucinewgame"); used.verif_handle_command("ucinewgame");
        rep.distinct += 1;
        if rep.distinct % 4 == 1 { rep.sample(jstr(&fen)); }
    }
    // a LONG game without ucinewgame (thorough tier: --long=N searches of depth --longdepth): the tables fill up with tens of
    // thousands of positions; whatever housekeeping that triggers must not make the answers depend on the key draw
    let long_n = num_arg(args, "long", 0);
    if long_n > 0 {
        let ld = num_arg(args, "longdepth", 6) as u8;
        let line = ["e2e4", "e7e5", "g1f3", "b8c6", "f1c4", "f8c5", "c2c3", "g8f6", "d2d3", "d7d6", "e1g1", "e8g8"];
        let mut a = Flounder::new();
        let mut b = Flounder::new();
        for i in 0..long_n.min(line.len()) {
            let cmd = if i == 0 { "position startpos".to_string() } else { format!("position startpos moves {}", line[..i].join(" ")) };
            a.verif_handle_command(&cmd); b.verif_handle_command(&cmd);
            let ba = a.verif_board().clone();
            let ra = a.verif_searcher().find_best_move(&ba, ld, None); let na = a.verif_searcher().verif_nodes();
            let rb = b.verif_searcher().find_best_move(&ba, ld, None); let nb = b.verif_searcher().verif_nodes();
            rep.evals += 1;
            let show = |r: &(i32, Option<Move>), n: u64| format!("score {} move {} nodes {}", r.0, r.1.map(|m| m.to_algebraic()).unwrap_or("0000".into()), n);
            if ra != rb || na != nb {
                rep.violation = Some(format!("{{\"input\": {{\"cmds\": \"searches of depth {} after each of the first {} commands `position startpos moves <prefix of {}>` in one game, no ucinewgame\", \"what\": \"two fresh engines (independent key draws)\"}}, \"real\": {}, \"expected\": {}}}", ld, i + 1, line.join(" "), jstr(&show(&rb, nb)), jstr(&show(&ra, na))));
                return rep.finish();
            }
        }
        rep.distinct += 1;
    }
    // games with a history: after shuffles that bring positions about twice the repetition rule is live in the search, and what it
    // does must not depend on the key draw either (scores, moves, node counts of two fresh engines after the same commands)
    for f in LOPSIDED {
        let Some(p0) = parse_fen(f) else { continue };
        for cyc in find_cycles(&p0, 2) {
            for n in [6usize, 8, 9] {
                let list: Vec<String> = (0..n).map(|i| cyc[i % 4].uci()).collect();
                let cmd = format!("position fen {} moves {}", f, list.join(" "));
                let mut a = Flounder::new();
                let mut b = Flounder::new();
                a.verif_handle_command(&cmd); b.verif_handle_command(&cmd);
                for d in 1..=maxd.min(4) {
                    let ba = a.verif_board().clone();
                    let ra = a.verif_searcher().find_best_move(&ba, d, None); let na = a.verif_searcher().verif_nodes();
                    let rb = b.verif_searcher().find_best_move(&ba, d, None); let nb = b.verif_searcher().verif_nodes();
                    rep.evals += 1;
                    let show = |r: &(i32, Option<Move>), n: u64| format!("score {} move {} nodes {}", r.0, r.1.map(|m| m.to_algebraic()).unwrap_or("0000".into()), n);
                    if ra != rb || na != nb {
                        rep.violation = Some(format!("{{\"input\": {{\"cmds\": [{}], \"depth\": {}, \"what\": \"two fresh engines (independent key draws) after a game with repeated positions\"}}, \"real\": {}, \"expected\": {}}}", jstr(&cmd), d, jstr(&show(&rb, nb)), jstr(&show(&ra, na))));
                        return rep.finish();
                    }
                }
            }
            rep.distinct += 1;
        }
    }
    rep.finish()
}
