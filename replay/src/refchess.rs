//! A deliberately simple reference implementation of the rules of chess (mailbox board, ray walks, legality by
//! make-move-and-test). It shares no code with the engine. It is used ONLY to confirm and display counterexamples and as
//! the oracle of bounded stand-ins; it never decides a property by itself when the deductive check can run.

#[derive(Clone, Copy, PartialEq, Eq, Debug, Hash)]
pub enum Pc { P, N, B, R, Q, K }

#[derive(Clone, Copy, PartialEq, Eq, Debug, Hash)]
pub enum Col { W, B }

impl Col {
    pub fn other(self) -> Col { if self == Col::W { Col::B } else { Col::W } }
}

#[derive(Clone, PartialEq, Eq, Debug, Hash)]
pub struct RPos {
    pub sq: [Option<(Col, Pc)>; 64],
    pub stm: Col,
    pub wk: bool, pub wq: bool, pub bk: bool, pub bq: bool,
    pub ep: Option<u8>,
}

#[derive(Clone, Copy, PartialEq, Eq, Debug, Hash, PartialOrd, Ord)]
pub struct RMove { pub from: u8, pub to: u8, pub promo: Option<u8> }   // promo: 1=N 2=B 3=R 4=Q

impl RMove {
    pub fn uci(&self) -> String {
        let f = |s: u8| format!("{}{}", (b'a' + s % 8) as char, (b'1' + s / 8) as char);
        let p = match self.promo { Some(1) => "n", Some(2) => "b", Some(3) => "r", Some(4) => "q", _ => "" };
        format!("{}{}{}", f(self.from), f(self.to), p)
    }
}

pub fn parse_fen(fen: &str) -> Option<RPos> {
    let parts: Vec<&str> = fen.split_whitespace().collect();
    if parts.len() < 4 { return None; }
    let mut sq = [None; 64];
    let ranks: Vec<&str> = parts[0].split('/').collect();
    if ranks.len() != 8 { return None; }
    for (i, r) in ranks.iter().enumerate() {
        let rank = 7 - i;
        let mut file = 0usize;
        for c in r.chars() {
            if let Some(d) = c.to_digit(10) { file += d as usize; continue; }
            let col = if c.is_ascii_uppercase() { Col::W } else { Col::B };
            let pc = match c.to_ascii_lowercase() { 'p' => Pc::P, 'n' => Pc::N, 'b' => Pc::B, 'r' => Pc::R, 'q' => Pc::Q, 'k' => Pc::K, _ => return None };
            if file > 7 { return None; }
            sq[rank * 8 + file] = Some((col, pc));
            file += 1;
        }
    }
    let stm = if parts[1] == "w" { Col::W } else { Col::B };
    let c = parts[2];
    let ep = if parts[3] == "-" { None } else {
        let b = parts[3].as_bytes();
        Some((b[1] - b'1') * 8 + (b[0] - b'a'))
    };
    Some(RPos { sq, stm, wk: c.contains('K'), wq: c.contains('Q'), bk: c.contains('k'), bq: c.contains('q'), ep })
}

pub fn to_fen(p: &RPos) -> String {
    let mut s = String::new();
    for rank in (0..8).rev() {
        let mut empty = 0;
        for file in 0..8 {
            match p.sq[rank * 8 + file] {
                None => empty += 1,
                Some((c, pc)) => {
                    if empty > 0 { s.push_str(&empty.to_string()); empty = 0; }
                    let ch = match pc { Pc::P => 'p', Pc::N => 'n', Pc::B => 'b', Pc::R => 'r', Pc::Q => 'q', Pc::K => 'k' };
                    s.push(if c == Col::W { ch.to_ascii_uppercase() } else { ch });
                }
            }
        }
        if empty > 0 { s.push_str(&empty.to_string()); }
        if rank > 0 { s.push('/'); }
    }
    s.push(' ');
    s.push(if p.stm == Col::W { 'w' } else { 'b' });
    s.push(' ');
    let mut c = String::new();
    if p.wk { c.push('K'); } if p.wq { c.push('Q'); } if p.bk { c.push('k'); } if p.bq { c.push('q'); }
    if c.is_empty() { c.push('-'); }
    s.push_str(&c);
    s.push(' ');
    match p.ep { None => s.push('-'), Some(e) => { s.push((b'a' + e % 8) as char); s.push((b'1' + e / 8) as char); } }
    s.push_str(" 0 1");
    s
}

const KN: [(i32, i32); 8] = [(1, 2), (2, 1), (-1, 2), (-2, 1), (1, -2), (2, -1), (-1, -2), (-2, -1)];
const KI: [(i32, i32); 8] = [(1, 0), (-1, 0), (0, 1), (0, -1), (1, 1), (1, -1), (-1, 1), (-1, -1)];
const RD: [(i32, i32); 4] = [(1, 0), (-1, 0), (0, 1), (0, -1)];
const BD: [(i32, i32); 4] = [(1, 1), (1, -1), (-1, 1), (-1, -1)];

fn at(r: i32, f: i32) -> Option<usize> { if (0..8).contains(&r) && (0..8).contains(&f) { Some((r * 8 + f) as usize) } else { None } }

/// is square s attacked by a man of colour `by`?
pub fn attacked(p: &RPos, s: usize, by: Col) -> bool {
    let (r, f) = ((s / 8) as i32, (s % 8) as i32);
    // pawns: a pawn of colour `by` on (r - dir, f +- 1) attacks s
    let dir = if by == Col::W { 1 } else { -1 };
    for df in [-1, 1] {
        if let Some(u) = at(r - dir, f + df) { if p.sq[u] == Some((by, Pc::P)) { return true; } }
    }
    for (dr, df) in KN { if let Some(u) = at(r + dr, f + df) { if p.sq[u] == Some((by, Pc::N)) { return true; } } }
    for (dr, df) in KI { if let Some(u) = at(r + dr, f + df) { if p.sq[u] == Some((by, Pc::K)) { return true; } } }
    for (dirs, a, b) in [(RD, Pc::R, Pc::Q), (BD, Pc::B, Pc::Q)] {
        for (dr, df) in dirs {
            let (mut rr, mut ff) = (r + dr, f + df);
            while let Some(u) = at(rr, ff) {
                if let Some((c, pc)) = p.sq[u] {
                    if c == by && (pc == a || pc == b) { return true; }
                    break;
                }
                rr += dr; ff += df;
            }
        }
    }
    false
}

pub fn king_sq(p: &RPos, c: Col) -> Option<usize> { (0..64).find(|&s| p.sq[s] == Some((c, Pc::K))) }
pub fn in_check(p: &RPos, c: Col) -> bool { king_sq(p, c).map(|k| attacked(p, k, c.other())).unwrap_or(false) }

pub fn apply(p: &RPos, m: RMove) -> RPos {
    let mut q = p.clone();
    let (from, to) = (m.from as usize, m.to as usize);
    let (c, pc) = p.sq[from].expect("no piece on from");
    q.sq[from] = None;
    // en passant capture
    if pc == Pc::P && Some(m.to) == p.ep && from % 8 != to % 8 {
        let v = if c == Col::W { to - 8 } else { to + 8 };
        q.sq[v] = None;
    }
    // castling: rook relocation
    if pc == Pc::K && (to as i32 - from as i32).abs() == 2 {
        if to > from { q.sq[from + 3] = None; q.sq[from + 1] = Some((c, Pc::R)); }
        else { q.sq[from - 4] = None; q.sq[from - 1] = Some((c, Pc::R)); }
    }
    let placed = match m.promo { Some(1) => Pc::N, Some(2) => Pc::B, Some(3) => Pc::R, Some(4) => Pc::Q, _ => pc };
    q.sq[to] = Some((c, placed));
    // rights: lost when the king or the rook leaves home, or something lands on a rook's home square
    let touch = |s: usize| from == s || to == s;
    if touch(4) || touch(7) { q.wk = false; }
    if touch(4) || touch(0) { q.wq = false; }
    if touch(60) || touch(63) { q.bk = false; }
    if touch(60) || touch(56) { q.bq = false; }
    q.ep = if pc == Pc::P && (to as i32 - from as i32).abs() == 16 { Some(((from + to) / 2) as u8) } else { None };
    q.stm = c.other();
    q
}

pub fn pseudo_moves(p: &RPos) -> Vec<RMove> {
    let mut out = Vec::new();
    let me = p.stm;
    for s in 0..64usize {
        let (c, pc) = match p.sq[s] { Some(x) => x, None => continue };
        if c != me { continue; }
        let (r, f) = ((s / 8) as i32, (s % 8) as i32);
        let mut push = |to: usize, out: &mut Vec<RMove>| out.push(RMove { from: s as u8, to: to as u8, promo: None });
        match pc {
            Pc::P => {
                let dir = if me == Col::W { 1 } else { -1 };
                let last = if me == Col::W { 7 } else { 0 };
                let start = if me == Col::W { 1 } else { 6 };
                let mut add = |to: usize, out: &mut Vec<RMove>| {
                    if (to / 8) as i32 == last { for pr in 1..=4 { out.push(RMove { from: s as u8, to: to as u8, promo: Some(pr) }); } }
                    else { out.push(RMove { from: s as u8, to: to as u8, promo: None }); }
                };
                if let Some(t) = at(r + dir, f) {
                    if p.sq[t].is_none() {
                        add(t, &mut out);
                        if r == start { if let Some(t2) = at(r + 2 * dir, f) { if p.sq[t2].is_none() { add(t2, &mut out); } } }
                    }
                }
                for df in [-1, 1] {
                    if let Some(t) = at(r + dir, f + df) {
                        match p.sq[t] {
                            Some((c2, _)) if c2 != me => add(t, &mut out),
                            None if p.ep == Some(t as u8) => add(t, &mut out),
                            _ => {}
                        }
                    }
                }
            }
            Pc::N => for (dr, df) in KN { if let Some(t) = at(r + dr, f + df) { if p.sq[t].map(|x| x.0) != Some(me) { push(t, &mut out); } } },
            Pc::K => {
                for (dr, df) in KI { if let Some(t) = at(r + dr, f + df) { if p.sq[t].map(|x| x.0) != Some(me) { push(t, &mut out); } } }
                let home = if me == Col::W { 4 } else { 60 };
                let (ks, qs) = if me == Col::W { (p.wk, p.wq) } else { (p.bk, p.bq) };
                if s == home && !attacked(p, s, me.other()) {
                    if ks && p.sq[home + 1].is_none() && p.sq[home + 2].is_none() && p.sq[home + 3] == Some((me, Pc::R))
                        && !attacked(p, home + 1, me.other()) && !attacked(p, home + 2, me.other()) { push(home + 2, &mut out); }
                    if qs && p.sq[home - 1].is_none() && p.sq[home - 2].is_none() && p.sq[home - 3].is_none() && p.sq[home - 4] == Some((me, Pc::R))
                        && !attacked(p, home - 1, me.other()) && !attacked(p, home - 2, me.other()) { push(home - 2, &mut out); }
                }
            }
            Pc::B | Pc::R | Pc::Q => {
                let dirs: Vec<(i32, i32)> = match pc { Pc::B => BD.to_vec(), Pc::R => RD.to_vec(), _ => RD.iter().chain(BD.iter()).cloned().collect() };
                for (dr, df) in dirs {
                    let (mut rr, mut ff) = (r + dr, f + df);
                    while let Some(t) = at(rr, ff) {
                        match p.sq[t] {
                            None => push(t, &mut out),
                            Some((c2, _)) => { if c2 != me { push(t, &mut out); } break; }
                        }
                        rr += dr; ff += df;
                    }
                }
            }
        }
    }
    out
}

pub fn legal_moves(p: &RPos) -> Vec<RMove> {
    let me = p.stm;
    let mut v: Vec<RMove> = pseudo_moves(p).into_iter().filter(|m| !in_check(&apply(p, *m), me)).collect();
    v.sort();
    v
}

/// structural validity in the sense of the properties' quantifier
pub fn valid(p: &RPos) -> bool {
    let cnt = |c: Col, pc: Pc| (0..64).filter(|&s| p.sq[s] == Some((c, pc))).count();
    if cnt(Col::W, Pc::K) != 1 || cnt(Col::B, Pc::K) != 1 { return false; }
    for s in (0..8).chain(56..64) { if let Some((_, Pc::P)) = p.sq[s] { return false; } }
    if in_check(p, p.stm.other()) { return false; }
    if p.wk && !(p.sq[4] == Some((Col::W, Pc::K)) && p.sq[7] == Some((Col::W, Pc::R))) { return false; }
    if p.wq && !(p.sq[4] == Some((Col::W, Pc::K)) && p.sq[0] == Some((Col::W, Pc::R))) { return false; }
    if p.bk && !(p.sq[60] == Some((Col::B, Pc::K)) && p.sq[63] == Some((Col::B, Pc::R))) { return false; }
    if p.bq && !(p.sq[60] == Some((Col::B, Pc::K)) && p.sq[56] == Some((Col::B, Pc::R))) { return false; }
    if let Some(e) = p.ep {
        let e = e as usize;
        let (rank_ok, behind, front) = if p.stm == Col::W { (e / 8 == 5, e + 8, e - 8) } else { (e / 8 == 2, e - 8, e + 8) };
        if !rank_ok || p.sq[e].is_some() || p.sq[behind].is_some() || p.sq[front] != Some((p.stm.other(), Pc::P)) { return false; }
    }
    for c in [Col::W, Col::B] { if (0..64).filter(|&s| p.sq[s].map(|x| x.0) == Some(c)).count() > 16 { return false; } }
    true
}

/// tiny deterministic PRNG (xorshift) so that every exploration is reproducible from VERIF_SEED
pub struct Rng(pub u64);
impl Rng {
    pub fn next(&mut self) -> u64 { let mut x = self.0; x ^= x << 13; x ^= x >> 7; x ^= x << 17; self.0 = x; x }
    pub fn below(&mut self, n: usize) -> usize { (self.next() % n as u64) as usize }
}
