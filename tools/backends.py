#!/usr/bin/env python3
"""
Secondary back ends of the driver:
  * the native replay tool (/verif/replay, the REAL engine sources included by #[path], built with --cfg flounder_verif):
      - counterexample(): after a Verus obligation failed, look for a concrete failing input and replay it
      - bounded_standin(): when Verus cannot ingest the edited code at all, a bounded check of the property (labelled bounded)
      - run_for(): in the thorough tier the same bounded checks are run as additional evidence (never counted as proved)
"""
import json
import os
import subprocess
import time

HERE = os.path.dirname(os.path.abspath(__file__))
VERIF = os.path.dirname(HERE)
REPO = os.environ.get("FLOUNDER_REPO", "/repo")


def _alt_tag():
    import hashlib
    return "" if REPO == "/repo" else "_alt_" + hashlib.sha1(REPO.encode()).hexdigest()[:8]


def crate_dir(name):
    """the replay / kani crate. They include the engine sources by #[path = "/repo/src/.."]; when the driver is pointed at another
    tree (FLOUNDER_REPO, developer use only: seeded changes are tried on a scratch worktree while /repo stays untouched) a copy
    of the crate with that path substituted is generated under build/."""
    src = os.path.join(VERIF, name)
    if REPO == "/repo":
        return src
    import shutil
    dst = os.path.join(VERIF, "build", name + _alt_tag())
    if os.path.exists(dst):
        shutil.rmtree(dst)
    shutil.copytree(src, dst, ignore=shutil.ignore_patterns("target"))
    mp = os.path.join(dst, "src", "main.rs")
    txt = open(mp).read().replace('"/repo/src/', '"%s/src/' % REPO)
    open(mp, "w").write(txt)
    return dst


TARGET = os.path.join(VERIF, "build", "replay_target" + _alt_tag())
BIN = os.path.join(TARGET, "release", "flounder_replay")

# property -> list of (command, args for quick use, args for thorough use)
NATIVE = {
    "C01": [("movegen", ["--what=legal", "--walks=150", "--plies=30"], ["--what=legal", "--walks=1500", "--plies=60"]),
            ("movegen-small", ["--secs=20"], ["--secs=600"])],
    "C02": [("movegen", ["--what=make", "--walks=100", "--plies=30"], ["--what=make", "--walks=800", "--plies=60"]),
            ("movegen-small", ["--what=make", "--secs=16"], ["--what=make", "--secs=300"])],
    "C17": [("movegen", ["--what=quiescence", "--walks=150", "--plies=30"], ["--what=quiescence", "--walks=1500", "--plies=60"])],
    "C15": [("tt-seq", ["--len=4", "--bulk=1300000"], ["--len=5", "--bulk=6000000"])],
    "C11": [("hash-components", [], [])],
    "C12": [("budget", [], [])],
    "C10": [("tables", [], [])],
    "C14": [("eval", [], [])],
    "C06": [("search-interrupt", ["--depth=3", "--maxnodes=120"], ["--depth=3", "--maxnodes=600"])],
    "C03": [("bestmove", [], []), ("uci-session", ["--positions=40"], ["--positions=300"])],
    "C07": [("overrun", [], [])],
    "C05": [("minimax", ["--walks=300", "--depth=3"], ["--walks=3000", "--depth=3", "--backrank=1500"])],
    "C08": [("mate-in-one", ["--walks=15"], ["--walks=300"])],
    "C13": [("newgame", ["--positions=8", "--depth=3", "--long=8", "--longdepth=6"], ["--positions=150", "--depth=5", "--long=8", "--longdepth=6"])],
    "C09": [("game-history", ["--games=40", "--plies=20"], ["--games=400", "--plies=40"])],
    "C16": [("uci-process", ["--sessions=40"], ["--sessions=400", "--lines=30"])],
    "C04": [("position-cmd", ["--games=60", "--plies=24"], ["--games=600", "--plies=60"]), ("to-algebraic", [], [])],
}
# property -> Kani leaf harnesses (complete proofs: full-domain symbolic inputs, loops bounded by a small constant with unwinding
# assertions on) that discharge a contract Verus only ASSUMES because the function body is outside its subset
KANI = {
    "C02": [("get_piece_at_contract", "board::Board::get_piece_at == position.piece_on(square): all 2^512 bitboard octets x 64 squares; loop bound 7 (six piece kinds), unwinding assertions on"),
            ("get_color_at_contract", "board::Board::get_color_at == position.color_on(square): all bitboards x 64 squares; loop bound 3")],
    # assumed specifications of std scalar functions (contracts/std.vspec) checked against std itself for every argument
    "C10": [("std_checked_shifts", "assumed std spec u64::checked_shl / checked_shr == (n < 64 ? Some(x << n / x >> n) : None): all u64 x u32, loop-free")],
    "C05": [("std_saturating_add_i32", "assumed std spec i32::saturating_add: all i32 x i32, loop-free"),
            ("std_max_min_i32", "assumed std spec cmp::max / cmp::min on i32 (the only instantiation in the engine): all i32 x i32, loop-free"),
            ("std_int_extras", "assumed std specs i32::saturating_sub, i32::abs: all i32 (x i32), loop-free")],
    "C04": [("std_char_fns", "assumed std specs char::to_digit(10), char::to_ascii_lowercase, char::is_lowercase (on ASCII letters): every char, loop-free")],
}
# harnesses that are complete but too slow for the quick tier: thorough tier only
KANI_THOROUGH = {
    "C01": [("std_count_ones", "assumed std spec u64::count_ones == popcount (the recursive spec function): all u64, one loop bounded by 64 with unwinding assertions on (about 100 s)")],
}
_built = {"ok": None, "log": ""}


def run_kani(pid, tier="quick"):
    """(records, violations) for the Kani leaf harnesses of property pid"""
    out, viol = [], []
    todo = list(KANI.get(pid, [])) + (list(KANI_THOROUGH.get(pid, [])) if tier == "thorough" else [])
    if not todo:
        return out, viol
    kdir = crate_dir("kani")
    lock = os.path.join(os.environ.get("FLOUNDER_REPO", "/repo"), "Cargo.lock")
    try:
        import shutil
        shutil.copy(lock, os.path.join(kdir, "Cargo.lock"))
    except OSError:
        pass
    env = dict(os.environ, CARGO_NET_OFFLINE="true", CARGO_TARGET_DIR=os.path.join(VERIF, "build", "kani_target" + _alt_tag()), RUSTFLAGS="--cfg flounder_verif")
    for name, what in todo:
        t0 = time.time()
        try:
            p = subprocess.run(["cargo", "kani", "--harness", name], cwd=kdir, env=env, stdout=subprocess.PIPE, stderr=subprocess.STDOUT, text=True, timeout=900)
            txt = p.stdout
        except Exception as e:  # noqa
            txt = "kani did not run: %s" % e
        ok = "VERIFICATION:- SUCCESSFUL" in txt
        failed = "VERIFICATION:- FAILED" in txt
        rec = {"name": "kani-complete:" + name, "status": "ok" if ok else ("violation" if failed else "undecided"), "bounded": False,
               "counts_as_proof": True, "obligations": 1, "discharged": 1 if ok else 0, "what": what,
               "cmd": "RUSTFLAGS='--cfg flounder_verif' cargo kani --harness %s (in /verif/kani; real files by #[path])" % name,
               "wall_s": round(time.time() - t0, 1)}
        out.append(rec)
        if failed:
            tail = "\n".join(l for l in txt.splitlines() if "FAIL" in l or "Failed Checks" in l)[-1500:]
            viol.append({"obligation": "kani:" + name, "backend": "kani-complete", "messages": [{"rendered": tail, "message": tail}]})
        elif not ok:
            rec["log"] = txt[-800:]
    return out, viol


def build():
    if _built["ok"] is not None:
        return _built["ok"]
    env = dict(os.environ, CARGO_NET_OFFLINE="true", CARGO_TARGET_DIR=TARGET)
    lock_src = os.path.join(os.environ.get("FLOUNDER_REPO", "/repo"), "Cargo.lock")
    try:
        p = subprocess.run(["cargo", "build", "--release", "--offline"], cwd=crate_dir("replay"), env=env,
                           stdout=subprocess.PIPE, stderr=subprocess.STDOUT, text=True, timeout=900)
        _built["ok"] = p.returncode == 0 and os.path.exists(BIN)
        _built["log"] = p.stdout[-3000:]
    except Exception as e:  # noqa
        _built["ok"] = False
        _built["log"] = str(e)
    return _built["ok"]


def run_native(cmd, args, seed, timeout=900):
    t0 = time.time()
    try:
        p = subprocess.run([BIN, cmd] + list(args) + ["--seed=%d" % (seed if seed else 1)], stdout=subprocess.PIPE, stderr=subprocess.PIPE,
                           text=True, timeout=timeout)
    except subprocess.TimeoutExpired:
        return {"name": cmd, "status": "timeout", "wall_s": round(time.time() - t0, 1)}
    rec = None
    for line in p.stdout.splitlines():
        if line.startswith('{"name"'):
            try:
                rec = json.loads(line)
            except ValueError:
                rec = {"name": cmd, "status": "unparsable", "raw": line[:500], "violation": {"input": {"raw": line[:800]}, "real": "unparsable report of the native tool", "expected": ""} if '"violation": {' in line else None}
    if rec is None:
        return {"name": cmd, "status": "crashed", "exit": p.returncode, "stderr": p.stderr[-1500:], "wall_s": round(time.time() - t0, 1)}
    rec["wall_s"] = round(time.time() - t0, 1)
    rec["status"] = "violation" if rec.get("violation") else "ok"
    rec["cmd"] = " ".join([BIN, cmd] + list(args))
    return rec


_cex_cache = {}


def counterexample(pid, obligation, bdir, seed):
    """concrete failing input for a failed obligation of property pid, replayed on the real code; None if none found.
    One search per property and run (shared by all failed obligations), with a hard time cap."""
    if pid in _cex_cache:
        return _cex_cache[pid]
    _cex_cache[pid] = _counterexample(pid, seed)
    return _cex_cache[pid]


def _counterexample(pid, seed):
    if pid not in NATIVE or not build():
        return None
    cap = int(os.environ.get("VERIF_CEX_TIMEOUT", "240" if os.environ.get("VERIF_TIER", "quick") != "thorough" else "900"))
    for cmd, qa, ta in NATIVE[pid]:
        rec = run_native(cmd, qa if cap <= 240 else (ta if ta else qa), seed, timeout=cap)
        if rec.get("status") == "violation":
            v = rec["violation"]
            return {"input": v.get("input"), "real": v.get("real"), "expected": v.get("expected"), "reproduced": True,
                    "found_by": rec.get("cmd"), "bound": rec.get("bound")}
        if rec.get("status") == "crashed":
            return {"input": {"cmd": cmd}, "real": {"crash": rec.get("stderr", "")[-800:]}, "expected": "no panic", "reproduced": True,
                    "found_by": cmd}
    return None


def bounded_standin(pid, tier, seed, bdir):
    if pid not in NATIVE:
        return None
    if not build():
        return {"name": "native-build", "summary": "the replay crate does not build against the edited sources: " + _built["log"][-400:], "violation": None}
    summ = []
    for cmd, qa, ta in NATIVE[pid]:
        rec = run_native(cmd, ta if tier == "thorough" else qa, seed)
        if rec.get("status") == "violation":
            return {"name": cmd, "violation": rec["violation"], "summary": rec.get("bound"), "cmd": rec.get("cmd")}
        if rec.get("status") == "crashed":
            return {"name": cmd, "violation": {"input": {"cmd": cmd}, "real": {"crash": rec.get("stderr", "")[-800:]}, "expected": "no panic"}, "summary": "crash"}
        summ.append("%s: %s evaluations, bound: %s" % (cmd, rec.get("evaluations"), rec.get("bound")))
    return {"name": "+".join(c for c, _, _ in NATIVE[pid]), "violation": None, "summary": "; ".join(summ)}


def run_for(pid, tier, seed, bdir, spec):
    """secondary evidence; (list of records, list of violations)"""
    out, viol = run_kani(pid, tier)
    # the bounded native checks run in the thorough tier, and in every tier for a property part of whose cone is outside
    # the verifier's reach (spec["native_always"]): there they are the stated bounded stand-in for that part
    if (tier != "thorough" and not spec.get("native_always")) or pid not in NATIVE:
        return out, viol
    if not build():
        out.append({"name": "native-bounded", "status": "not-built", "bounded": True, "counts_as_proof": False, "log": _built["log"][-500:]})
        return out, viol
    for cmd, qa, ta in NATIVE[pid]:
        rec = run_native(cmd, ta if tier == "thorough" else qa, seed)
        if rec.get("status") == "crashed":
            rec = {"status": "violation", "cmd": " ".join([BIN, cmd] + list(ta if tier == "thorough" else qa)), "bound": "crash",
                   "violation": {"input": {"cmd": cmd}, "real": {"crash": rec.get("stderr", "")[-800:]}, "expected": "no panic"}}
        entry = {"name": "native-bounded:" + cmd, "status": rec.get("status"), "bounded": True, "counts_as_proof": False,
                 "bound": rec.get("bound"), "evaluations": rec.get("evaluations"), "distinct": rec.get("distinct"),
                 "wall_s": rec.get("wall_s"), "samples": rec.get("samples", [])[:4], "obligations": 0, "discharged": 0}
        out.append(entry)
        if rec.get("status") == "violation":
            v = rec["violation"]
            viol.append({"obligation": "bounded:" + cmd, "backend": "native-bounded", "messages": [],
                         "input": {"input": v.get("input"), "real": v.get("real"), "expected": v.get("expected"), "reproduced": True,
                                   "found_by": rec.get("cmd"), "bound": rec.get("bound")}})
    return out, viol
