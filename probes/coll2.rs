use vstd::prelude::*;
verus! {
fn mk() -> (r: Vec<Vec<u64>>)
    ensures r.len() == 64, forall|i: int| 0 <= i < 64 ==> #[trigger] r[i].len() == 512
{
    let piece_attacks = (0..64)
                .map(|_u: i32| -> (v: Vec<u64>) ensures v.len() == 512 { vec![0; 512] })
                .collect::<Vec<Vec<u64>>>();
    piece_attacks
}
}
fn main(){}
