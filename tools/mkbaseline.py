#!/usr/bin/env python3
"""Developer tool (never run by a check): records, for the PINNED tree, which functions of /repo/src carry neither a contract nor
an assumed contract. A function that is uncontracted and NOT in this list is new code; an obligation that fails in a function
calling such code is reported as undecided (modularity artefact), not as a violation - see check.py."""
import json, os, sys
V = os.path.dirname(os.path.dirname(os.path.abspath(__file__)))
sys.path.insert(0, os.path.join(V, "tools"))
import extract as ex
rep = ex.extract(os.path.join(V, "build", "dev", "baseline_v.rs"), os.path.join(V, "build", "dev", "baseline_report.json"), light_magic=True)
known = set(rep["under_contract"]) | {a["fn"] for a in rep["assumed"]}
known_names = {}
for fq in known:
    parts = fq.split("::")
    known_names.setdefault(parts[0], set()).add(parts[-1])
out = {m: sorted(n for n in names if n not in known_names.get(m, set())) for m, names in rep["all_fns"].items()}
p = os.path.join(V, "contracts", "OBLIGATIONS.json")
o = json.load(open(p))
o["baseline_uncontracted"] = out
json.dump(o, open(p, "w"), indent=1)
print({m: len(v) for m, v in out.items() if v})
