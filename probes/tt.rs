use vstd::prelude::*;
use std::collections::HashMap;

verus! {

#[derive(PartialEq, Eq, Copy, Clone, Debug)]
pub enum MoveType { Quiet, Capture, EnPassant, Castle, Promotion }

#[derive(Copy, Clone, PartialEq, Eq, Debug)]
pub enum Piece { Pawn, Knight, Bishop, Rook, Queen, King }

#[derive(PartialEq, Eq, Copy, Clone, Debug)]
pub struct Move {
    pub to: u8,
    pub from: u8,
    pub piece_type: Piece,
    pub move_type: MoveType,
}

pub struct TranspositionTable {
    table: HashMap<u64, Entry>,
}

impl TranspositionTable {
    pub closed spec fn view(&self) -> Map<u64, Entry> { self.table@ }

    pub fn new() -> (r: Self)
        ensures r@ == Map::<u64, Entry>::empty()
    {
        Self {
            table: HashMap::new(),
        }
    }

    pub fn store(&mut self, hash_key: u64, eval: i32, best_move: Option<Move>, depth: u8, bounds: Bounds)
        ensures
            final(self)@ == (if old(self)@.contains_key(hash_key) && old(self)@[hash_key].depth > depth { old(self)@ } else {
                old(self)@.insert(hash_key, Entry { hash_key, eval, best_move, depth, bounds }) }),
    {
        let entry = Entry {
            hash_key,
            eval,
            best_move,
            depth,
            bounds,
        };

        // Depth-Preferred Replacement
        let prev_entry = self.table.get(&hash_key);
        if prev_entry.is_none() {
            self.table.insert(hash_key, entry);
        } else if prev_entry.is_some() && prev_entry.unwrap().depth <= depth {
            self.table.insert(hash_key, entry);
        }
    }

    pub fn retrieve(&self, key: u64) -> (r: Option<&Entry>)
        ensures
            match r { Some(e) => self@.contains_key(key) && *e == self@[key] && e.hash_key == key, None => !self@.contains_key(key) || self@[key].hash_key != key }
    {
        let entry = self.table.get(&key);
        if entry.is_some() && entry.unwrap().hash_key == key {
            return entry;
        }
        return None;
    }
}

#[derive(Copy, Clone, Debug, PartialEq)]
pub struct Entry {
    pub hash_key: u64,
    pub eval: i32,
    pub best_move: Option<Move>,
    pub depth: u8,
    pub bounds: Bounds,
}

#[derive(Copy, Clone, Debug, PartialEq)]
pub enum Bounds {
    Exact,
    Lower,
    Upper,
}

} // verus!
fn main() {}
